//! C34 Next-run scheduling respects refresh and min-refresh.
//!
//! refresh / min-refresh go through routinator's option parsers; a history performs an initial
//! and then a regular validation result; `refresh_wait()` (the value the server loop sleeps for
//! after a regular run) is judged with wall-clock brackets taken immediately around the calls.
//!
//! Data-set expiry: without a repository, the expiry of a data set is produced through the
//! public processing interface the engine itself uses (`ProcessRun::process_ta` on the real
//! `ValidationReport`, `ProcessPubPoint::{point_validity, process_roa, commit}`) with a real,
//! rpki-validated trust-anchor certificate and ROA built once per run; the publication point's
//! validity handed to `point_validity` carries the generated expiry, exactly what the engine
//! passes for a manifest/CRL that goes stale at that time.

use std::net::Ipv4Addr;
use std::str::FromStr;
use std::sync::Arc;
use std::time::{Duration, Instant, SystemTime, UNIX_EPOCH};

use proptest::prelude::*;
use routinator::config::Config;
use routinator::engine::{CaCert, Engine, ProcessPubPoint, ProcessRun};
use routinator::metrics::{Metrics, TalMetrics};
use routinator::operation::Server;
use routinator::payload::{SharedHistory, ValidationReport};
use routinator::slurm::LocalExceptions;
use rpki::crypto::softsigner::OpenSslSigner;
use rpki::crypto::{PublicKeyFormat, Signer};
use rpki::repository::cert::{KeyUsage, Overclaim, ResourceCert, TbsCert};
use rpki::repository::resources::{Asn, Prefix};
use rpki::repository::roa::{RoaBuilder, RouteOriginAttestation};
use rpki::repository::sigobj::SignedObjectBuilder;
use rpki::repository::tal::{Tal, TalUri};
use rpki::repository::x509::{Time, Validity};
use rpki::rtr::server::NotifySender;
use rpki::uri;
use serde::{Deserialize, Serialize};

use crate::core::*;
use crate::hist::*;

#[derive(Serialize, Deserialize, Clone, Debug)]
pub struct Case {
    pub refresh: u64,
    pub min_refresh: Option<u64>,
    /// Options given in the config file instead of the command line.
    pub via_file: bool,
    /// Expiry of the regular run's data set, seconds relative to the start of that run
    /// (negative: already expired). None: data set without expiry.
    pub expiry: Option<i64>,
    /// The initial run's data set already contains the expiring object (regular run = no change).
    pub unchanged: bool,
}

#[derive(Serialize, Deserialize, Clone, Debug)]
pub struct LoopCase {
    pub refresh: u64,
    pub min_refresh: Option<u64>,
    pub via_file: bool,
    /// 0: empty data; 1: same assertions in both runs; 2: assertions change between the runs.
    pub data: u8,
}

/// Real objects used to give a data set an expiry.
pub struct Fixture {
    tal: Tal,
    tal_uri: TalUri,
    ca: Arc<CaCert>,
    ee: ResourceCert,
    route: RouteOriginAttestation,
    roa_uri: uri::Rsync,
    not_before: Time,
}

impl Fixture {
    pub fn new() -> Self {
        let signer = OpenSslSigner::new();
        let key = signer.create_key(PublicKeyFormat::Rsa).expect("key");
        let pubkey = signer.get_key_info(&key).expect("key info");
        let base = uri::Rsync::from_str("rsync://rv.test/m/").unwrap();
        let ta_uri = "rsync://rv.test/m/ta.cer";
        let not_before = Time::utc(2020, 1, 1, 0, 0, 0);
        let validity = Validity::new(not_before, Time::utc(2400, 1, 1, 0, 0, 0));
        let mut cert = TbsCert::new(12u64.into(), pubkey.to_subject_name(), validity, None, pubkey.clone(), KeyUsage::Ca, Overclaim::Refuse);
        cert.set_basic_ca(Some(true));
        cert.set_ca_repository(Some(base.clone()));
        cert.set_rpki_manifest(Some(base.join(b"ta.mft").unwrap()));
        cert.build_v4_resource_blocks(|b| b.push(Prefix::new(0, 0)));
        cert.build_v6_resource_blocks(|b| b.push(Prefix::new(0, 0)));
        cert.build_as_resource_blocks(|b| b.push((Asn::MIN, Asn::MAX)));
        let cert = cert.into_cert(&signer, &key).expect("sign ta");
        let tal_text = format!("{}\n\n{}\n", ta_uri, rpki::util::base64::Xml.encode(pubkey.to_info_bytes().as_ref()));
        let tal = Tal::read_named("rv".into(), &mut tal_text.as_bytes()).expect("tal");
        let tal_uri = tal.uris().next().expect("tal uri").clone();
        let roa_uri = base.join(b"a.roa").unwrap();
        let mut roa = RoaBuilder::new(64496.into());
        roa.push_v4_addr(Ipv4Addr::new(192, 0, 2, 0), 24, None);
        let roa = roa.finalize(SignedObjectBuilder::new(13u64.into(), validity, base.join(b"ta.crl").unwrap(), uri::Rsync::from_str(ta_uri).unwrap(), roa_uri.clone()), &signer, &key).expect("sign roa");
        // re-decode from DER, as the engine would see it
        let roa = rpki::repository::roa::Roa::decode(roa.to_captured().into_bytes(), false).expect("roa decodes");
        let ta = cert.validate_ta(tal.info().clone(), false).expect("ta validates");
        let (ee, route) = roa.process(&ta, false, |_| Ok(())).expect("roa validates");
        let ca = CaCert::root(ta, tal_uri.clone(), 0).expect("ca cert");
        Fixture { tal, tal_uri, ca, ee, route, roa_uri, not_before }
    }

    /// A validation report holding one publication point (one VRP) that expires at `expiry`.
    pub fn report(&self, config: &Config, expiry: Time) -> (ValidationReport, Metrics) {
        let report = ValidationReport::new(config);
        {
            let mut point = (&report).process_ta(&self.tal, &self.tal_uri, &self.ca, 0).expect("process_ta").expect("processor");
            point.point_validity(Validity::new(self.not_before, expiry), expiry);
            point.process_roa(&self.roa_uri, self.ee.clone(), self.route.clone()).expect("process_roa");
            point.commit();
        }
        let mut metrics = Metrics::new();
        metrics.tals.push(TalMetrics::new(self.tal.info().clone()));
        (report, metrics)
    }
}

impl Default for Fixture {
    fn default() -> Self {
        Self::new()
    }
}

fn secs(t: SystemTime) -> f64 {
    t.duration_since(UNIX_EPOCH).expect("after epoch").as_secs_f64()
}

struct Bracket {
    t0: SystemTime,
    i0: Instant,
}

impl Bracket {
    fn start() -> Self {
        Bracket { t0: SystemTime::now(), i0: Instant::now() }
    }
    /// (t0, t1) in seconds since the epoch, or the reason the case cannot be judged.
    fn finish(self) -> Result<(f64, f64), String> {
        let di = self.i0.elapsed().as_secs_f64();
        let t1 = SystemTime::now();
        let (t0, t1) = (secs(self.t0), secs(t1));
        if ((t1 - t0) - di).abs() > 0.25 {
            return Err("clock_step".into());
        }
        if di > 5.0 {
            return Err("slow_machine".into());
        }
        Ok((t0, t1))
    }
}

fn expiry_class(case_min: Option<u64>, refresh: u64, expiry: Option<i64>) -> &'static str {
    let Some(e) = expiry else { return "expiry=none" };
    let r = refresh as i128;
    let e = e as i128;
    let m = case_min.map(|m| m as i128);
    if e < 0 {
        "expiry=past"
    } else if e == r {
        "expiry=at_refresh"
    } else if e > r {
        "expiry=after_refresh"
    } else if let Some(m) = m {
        if e < m {
            "expiry=below_min"
        } else if e == m {
            "expiry=at_min"
        } else {
            "expiry=inside(min,refresh)"
        }
    } else {
        "expiry=before_refresh(min unset)"
    }
}

/// The oracle. `wait` was computed at some instant in [t0, t1]; the run finished (mark_update_done)
/// in [t0, wait instant]. `expiry_abs`: absolute expiry (seconds since the epoch).
fn oracle(refresh: u64, min: Option<u64>, expiry_abs: Option<f64>, class: &str, wait: Duration, t0: f64, t1: f64) -> Verdict {
    let floor = min.unwrap_or(refresh);
    let ceil = refresh.max(floor);
    let minset = if min.is_some() { "set" } else { "unset" };
    if wait < Duration::from_secs(floor) {
        return Verdict::fail(format!("C34/below-floor/min-refresh={}", minset), format!("wait {:?} < floor {} s (refresh {} min-refresh {:?} {})", wait, floor, refresh, min, class));
    }
    let w = wait.as_secs_f64();
    if w > ceil as f64 + 1.0 {
        return Verdict::fail(format!("C34/above-ceiling/min-refresh={}", minset), format!("wait {:?} > max(refresh, min-refresh) = {} s (refresh {} min-refresh {:?} {})", wait, ceil, refresh, min, class));
    }
    if let Some(m) = min {
        let r = refresh as f64;
        let e = expiry_abs.unwrap_or(f64::INFINITY);
        let lo = ((t0 + r).min(e) - t1).max(m as f64) - 1.0;
        let hi = ((t1 + r).min(e) - t0).max(m as f64) + 1.0;
        if w < lo {
            return Verdict::fail(format!("C34/wait-shorter-than-due/{}", class), format!("wait {:.3} s < {:.3} s (refresh {} min-refresh {} expiry in {:?} s, bracket {:.3} s)", w, lo, refresh, m, expiry_abs.map(|e| e - t0), t1 - t0));
        }
        if w > hi {
            return Verdict::fail(format!("C34/wait-longer-than-due/{}", class), format!("wait {:.3} s > {:.3} s (refresh {} min-refresh {} expiry in {:?} s, bracket {:.3} s)", w, hi, refresh, m, expiry_abs.map(|e| e - t0), t1 - t0));
        }
    }
    Verdict::Pass
}

fn make_config(env: &Env, refresh: u64, min: Option<u64>, via_file: bool) -> Result<Config, String> {
    let config = if via_file {
        let mut lines = vec![format!("refresh = {}", refresh)];
        if let Some(m) = min {
            lines.push(format!("min-refresh = {}", m));
        }
        env.config(&lines, &[])?
    } else {
        let mut cli = vec!["--refresh".to_string(), refresh.to_string()];
        if let Some(m) = min {
            cli.extend(["--min-refresh".to_string(), m.to_string()]);
        }
        env.config(&[], &cli)?
    };
    if config.refresh != Duration::from_secs(refresh) || config.min_refresh != min.map(Duration::from_secs) {
        return Err(format!("options read back as refresh={:?} min-refresh={:?}", config.refresh, config.min_refresh));
    }
    Ok(config)
}

fn common_classes(info: &mut CaseInfo, refresh: u64, min: Option<u64>, via_file: bool) {
    info.class(match min {
        None => "min=unset",
        Some(m) if m < refresh => "min<refresh",
        Some(m) if m == refresh => "min=refresh",
        Some(_) => "min>refresh",
    });
    info.class(if via_file { "via=file" } else { "via=cli" });
}

fn judge(env: &Env, fx: &Fixture, case: &Case, info: &mut CaseInfo) -> Verdict {
    let config = match make_config(env, case.refresh, case.min_refresh, case.via_file) {
        Ok(c) => c,
        Err(e) => return Verdict::Dropped(format!("config: {}", e)),
    };
    let class = expiry_class(case.min_refresh, case.refresh, case.expiry);
    info.class(class);
    info.class(if case.unchanged { "regular_run=no_change" } else { "regular_run=change" });
    common_classes(info, case.refresh, case.min_refresh, case.via_file);
    info.nt(class == "expiry=inside(min,refresh)");
    let history = SharedHistory::from_config(&config);
    let far = Time::utc(2300, 1, 1, 0, 0, 0);
    // initial run
    if case.unchanged && case.expiry.is_some() {
        let (report, metrics) = fx.report(&config, far);
        history.update(report, &LocalExceptions::empty(), metrics);
    } else {
        history.update(ValidationReport::new(&config), &LocalExceptions::empty(), Metrics::new());
    }
    history.mark_update_done();
    // regular run
    let bracket = Bracket::start();
    let expiry_abs: Option<i64> = case.expiry.map(|off| secs(bracket.t0).floor() as i64 + off);
    let (report, metrics) = match expiry_abs {
        Some(e) => fx.report(&config, Time::new(chrono::DateTime::from_timestamp(e, 0).expect("timestamp"))),
        None => (ValidationReport::new(&config), Metrics::new()),
    };
    history.mark_update_start();
    history.update(report, &LocalExceptions::empty(), metrics);
    history.mark_update_done();
    let wait = history.read().refresh_wait();
    let (t0, t1) = match bracket.finish() {
        Ok(b) => b,
        Err(why) => return Verdict::Dropped(why),
    };
    // The fixture must produce exactly this expiry; that is established on a twin report turned into
    // a snapshot directly, not on what the history holds afterwards: a history that keeps the
    // previous snapshot (with its later expiry) when the payload did not change is the property's
    // business, not a harness problem.
    if let Some(e) = expiry_abs {
        let (twin, mut tm) = fx.report(&config, Time::new(chrono::DateTime::from_timestamp(e, 0).expect("timestamp")));
        let got = twin.into_snapshot(&LocalExceptions::empty(), &mut tm).refresh().map(|t| t.timestamp());
        if got != expiry_abs {
            return Verdict::Dropped("fixture_expiry_mismatch".to_string());
        }
    }
    oracle(case.refresh, case.min_refresh, expiry_abs.map(|e| e as f64), class, wait, t0, t1)
}

fn judge_loop(env: &Env, engine: &Engine, case: &LoopCase, info: &mut CaseInfo) -> Verdict {
    let config = match make_config(env, case.refresh, case.min_refresh, case.via_file) {
        Ok(c) => c,
        Err(e) => return Verdict::Dropped(format!("config: {}", e)),
    };
    common_classes(info, case.refresh, case.min_refresh, case.via_file);
    info.class(format!("loop/data={}", case.data));
    info.nt(matches!(case.min_refresh, Some(m) if m != case.refresh));
    let history = SharedHistory::from_config(&config);
    let mut notify = NotifySender::new();
    let a = crate::pay::MSet::from_items([crate::pay::MItem::Origin(crate::pay::MOrigin::new(std::net::IpAddr::V4(Ipv4Addr::new(10, 0, 0, 0)), 8, None, 64496))]);
    let b = crate::pay::MSet::from_items([crate::pay::MItem::Origin(crate::pay::MOrigin::new(std::net::IpAddr::V4(Ipv4Addr::new(10, 0, 0, 0)), 8, Some(9), 64497))]);
    let (ex1, ex2) = match case.data {
        0 => (LocalExceptions::empty(), LocalExceptions::empty()),
        1 => (exceptions_for(&a), exceptions_for(&a)),
        _ => (exceptions_for(&a), exceptions_for(&b)),
    };
    // the server loop: initial run, then immediately a regular run, then sleep for refresh_wait()
    if Server::verif_process_once(&config, engine, &history, &mut notify, &ex1, true).is_err() {
        return Verdict::Dropped("initial_run_failed".into());
    }
    let bracket = Bracket::start();
    if Server::verif_process_once(&config, engine, &history, &mut notify, &ex2, false).is_err() {
        return Verdict::Dropped("regular_run_failed".into());
    }
    let wait = history.read().refresh_wait();
    let (t0, t1) = match bracket.finish() {
        Ok(b) => b,
        Err(why) => return Verdict::Dropped(why),
    };
    if history.read().current().and_then(|s| s.refresh()).is_some() {
        return Verdict::Dropped("unexpected_expiry".into());
    }
    oracle(case.refresh, case.min_refresh, None, "expiry=none", wait, t0, t1)
}

fn secs_strategy() -> impl Strategy<Value = u64> {
    prop_oneof![
        6 => prop::sample::select(vec![1u64, 2, 10, 600, 86_400, u32::MAX as u64]),
        1 => Just(0u64),
        2 => 1u64..100_000,
        1 => 1u64..=u32::MAX as u64,
    ]
}

fn timing_strategy() -> impl Strategy<Value = (u64, Option<u64>)> {
    (secs_strategy(), prop_oneof![2 => Just(None), 5 => secs_strategy().prop_map(Some)], 0u8..4, 0u64..1000).prop_map(|(r, m, rel, d)| {
        // force relation classes <, =, > to be frequent
        let m = match (m, rel) {
            (Some(_), 0) => Some(r),
            (Some(_), 1) => Some(r.saturating_sub(1 + d).min(r)),
            (Some(_), 2) => Some((r + 1 + d).min(u32::MAX as u64)),
            (m, _) => m,
        };
        (r, m)
    })
}

pub fn case_strategy() -> impl Strategy<Value = Case> {
    (timing_strategy(), any::<bool>(), 0u8..8, any::<u64>(), any::<bool>()).prop_map(|((refresh, min_refresh), via_file, class, rnd, unchanged)| {
        let r = refresh as i64;
        let m = min_refresh.unwrap_or(0) as i64;
        let between = |lo: i64, hi: i64| -> i64 {
            // a value in lo..=hi (lo if empty)
            if hi <= lo {
                lo
            } else {
                lo + (rnd % ((hi - lo + 1) as u64)) as i64
            }
        };
        let expiry = match class {
            0 => None,
            1 => Some(-between(1, 100_000)),
            2 => Some(between(0, (m - 1).max(0))), // below min-refresh (or 0)
            3 | 4 => {
                // strictly inside (min, refresh) when that interval is non-empty, else just below refresh
                if m + 1 < r {
                    Some(between(m + 1, r - 1))
                } else {
                    Some((r - 1).max(0))
                }
            }
            5 => Some(r),
            6 => Some(between(r + 1, r + 100_000)),
            _ => Some(between(0, r + 10)),
        };
        Case { refresh, min_refresh, via_file, expiry, unchanged }
    })
}

pub fn loop_strategy() -> impl Strategy<Value = LoopCase> {
    (timing_strategy(), any::<bool>(), 0u8..3).prop_map(|((refresh, min_refresh), via_file, data)| LoopCase { refresh, min_refresh, via_file, data })
}

pub fn run(ctx: &Ctx, rep: &mut Report, replay: Option<&serde_json::Value>) {
    rep.rule("refresh and min-refresh from {0,1,2,10,600,86400,2^32-1,random} with forced relation classes (<,=,>,unset), given on the command line or in the config file and read by routinator's parsers; sub-check 'direct': initial result then a regular result whose data set has no expiry or an expiry (whole seconds relative to the run) in the classes past / below min-refresh / strictly inside (min-refresh, refresh) / at refresh / after refresh, installed via SharedHistory::update + mark_update_done; sub-check 'loop': initial + regular Server::process_once over an engine without TALs (no expiry), exactly the calls of the server loop; observable refresh_wait(); non-trivial = min-refresh set and expiry strictly inside (min-refresh, refresh) ('loop': min-refresh set and different from refresh); distinct by serialised case");
    rep.assume("wall-clock oracle: t0/t1 are taken immediately around the run and refresh_wait(); floor is judged exactly (refresh_wait returns the value slept), ceiling and expiry-derived bounds with +-1 s beyond the measured bracket; a case is dropped when the bracket exceeds 5 s or SystemTime and Instant disagree by more than 0.25 s (clock step)");
    rep.assume("data-set expiry is injected through the public ProcessRun/ProcessPubPoint interface of the real ValidationReport (point_validity with the generated time) using a real rpki-validated TA certificate and ROA; how the engine derives that time from manifests/CRLs/certificates is not part of this check");
    rep.assume("values above 2^32-1 s are outside the domain (DESIGN C34)");
    let env = Env::new(ctx.scratch());
    let fx = Fixture::new();
    let prop = |case: &Case, info: &mut CaseInfo| judge(&env, &fx, case, info);
    init_process();
    let engine_config = env.config(&[], &[]).expect("engine config");
    let mut engine = Engine::new(&engine_config, true).expect("engine");
    engine.ignite().expect("ignite");
    let prop_loop = |case: &LoopCase, info: &mut CaseInfo| judge_loop(&env, &engine, case, info);
    if let Some(v) = replay {
        let t: Tagged<serde_json::Value> = serde_json::from_value(v.clone()).expect("replay");
        match t.sub.as_str() {
            "direct" => run_case(ctx, rep, "direct", &serde_json::from_value::<Case>(t.case).expect("case"), prop),
            "loop" => run_case(ctx, rep, "loop", &serde_json::from_value::<LoopCase>(t.case).expect("case"), prop_loop),
            other => panic!("unknown sub {}", other),
        }
        return;
    }
    run_prop(ctx, rep, "direct", ctx.tier.pick(60_000, 1_000_000), case_strategy(), prop);
    run_prop(ctx, rep, "loop", ctx.tier.pick(5_000, 60_000), loop_strategy(), prop_loop);
}
