//! E-pay: plain, serialisable payload models + generators + conversion to routinator types.

use std::collections::{BTreeMap, BTreeSet};
use std::net::{IpAddr, Ipv4Addr, Ipv6Addr};
use std::sync::Arc;

use bytes::Bytes;
use proptest::prelude::*;
use routinator::payload::{PayloadDelta, PayloadInfo, PayloadSnapshot};
use routinator::slurm::ExceptionInfo;
use rpki::crypto::keys::KeyIdentifier;
use rpki::resources::addr::{MaxLenPrefix, Prefix};
use rpki::resources::asn::Asn;
use rpki::rtr::payload::{Action, Aspa, PayloadRef, RouteOrigin, RouterKey};
use rpki::rtr::pdu::{ProviderAsns, RouterKeyInfo};
use serde::{Deserialize, Serialize};

#[derive(Serialize, Deserialize, Clone, Debug, PartialEq, Eq, Hash, PartialOrd, Ord)]
pub struct MOrigin {
    pub addr: IpAddr,
    pub len: u8,
    /// Resolved max length (always present in the model; identity of the item).
    pub max_len: u8,
    pub asn: u32,
}

#[derive(Serialize, Deserialize, Clone, Debug, PartialEq, Eq, Hash, PartialOrd, Ord)]
pub struct MKey {
    pub ski: [u8; 20],
    pub asn: u32,
    pub info: Vec<u8>,
}

#[derive(Serialize, Deserialize, Clone, Debug, PartialEq, Eq, Hash, PartialOrd, Ord)]
pub struct MAspa {
    pub customer: u32,
    /// Sorted, distinct.
    pub providers: Vec<u32>,
}

/// One payload item of any type (model side).
#[derive(Serialize, Deserialize, Clone, Debug, PartialEq, Eq, Hash, PartialOrd, Ord)]
pub enum MItem {
    Origin(MOrigin),
    Key(MKey),
    Aspa(MAspa),
}

/// A data set: distinct origins and keys, ASPAs keyed by customer.
#[derive(Serialize, Deserialize, Clone, Debug, Default, PartialEq, Eq, Hash)]
pub struct MSet {
    pub origins: BTreeSet<MOrigin>,
    pub keys: BTreeSet<MKey>,
    pub aspas: BTreeMap<u32, Vec<u32>>,
}

pub fn mask(addr: IpAddr, len: u8) -> IpAddr {
    match addr {
        IpAddr::V4(a) => {
            let bits = u32::from(a);
            let m = if len == 0 { 0 } else { u32::MAX << (32 - len as u32) };
            IpAddr::V4(Ipv4Addr::from(bits & m))
        }
        IpAddr::V6(a) => {
            let bits = u128::from(a);
            let m = if len == 0 { 0 } else { u128::MAX << (128 - len as u32) };
            IpAddr::V6(Ipv6Addr::from(bits & m))
        }
    }
}

impl MOrigin {
    pub fn new(addr: IpAddr, len: u8, max_len: Option<u8>, asn: u32) -> Self {
        let fam = if addr.is_ipv4() { 32 } else { 128 };
        let len = len.min(fam);
        let max_len = max_len.unwrap_or(len).clamp(len, fam);
        MOrigin { addr: mask(addr, len), len, max_len, asn }
    }
    pub fn is_v4(&self) -> bool {
        self.addr.is_ipv4()
    }
    pub fn prefix(&self) -> Prefix {
        Prefix::new(self.addr, self.len).expect("model prefix valid")
    }
    pub fn to_rpki(&self, explicit_max: bool) -> RouteOrigin {
        let ml = if !explicit_max && self.max_len == self.len { None } else { Some(self.max_len) };
        RouteOrigin::new(MaxLenPrefix::new(self.prefix(), ml).expect("model maxlen valid"), Asn::from_u32(self.asn))
    }
    pub fn from_rpki(o: RouteOrigin) -> Self {
        MOrigin { addr: o.prefix.addr(), len: o.prefix.prefix_len(), max_len: o.prefix.resolved_max_len(), asn: o.asn.into_u32() }
    }
    /// Address bits left-aligned in a u128 (v4 in the top 32 bits).
    pub fn bits(&self) -> u128 {
        match self.addr {
            IpAddr::V4(a) => (u32::from(a) as u128) << 96,
            IpAddr::V6(a) => u128::from(a),
        }
    }
}

impl MKey {
    pub fn to_rpki(&self) -> RouterKey {
        RouterKey::new(KeyIdentifier::from(self.ski), Asn::from_u32(self.asn), RouterKeyInfo::new(Bytes::from(self.info.clone())).expect("key info"))
    }
    pub fn from_rpki(k: &RouterKey) -> Self {
        let mut ski = [0u8; 20];
        ski.copy_from_slice(k.key_identifier.as_ref());
        MKey { ski, asn: k.asn.into_u32(), info: k.key_info.as_slice().to_vec() }
    }
}

impl MAspa {
    pub fn new(customer: u32, providers: impl IntoIterator<Item = u32>) -> Self {
        let set: BTreeSet<u32> = providers.into_iter().collect();
        MAspa { customer, providers: set.into_iter().collect() }
    }
    pub fn to_rpki(&self) -> Aspa {
        Aspa::new(Asn::from_u32(self.customer), ProviderAsns::try_from_iter(self.providers.iter().map(|a| Asn::from_u32(*a))).expect("providers"))
    }
    pub fn from_rpki(a: &Aspa) -> Self {
        MAspa { customer: a.customer.into_u32(), providers: a.providers.iter().map(|a| a.into_u32()).collect() }
    }
}

impl MItem {
    pub fn from_ref(p: PayloadRef<'_>) -> Self {
        match p {
            PayloadRef::Origin(o) => MItem::Origin(MOrigin::from_rpki(o)),
            PayloadRef::RouterKey(k) => MItem::Key(MKey::from_rpki(k)),
            PayloadRef::Aspa(a) => MItem::Aspa(MAspa::from_rpki(a)),
        }
    }
}

pub fn exception_info(comment: Option<&str>) -> PayloadInfo {
    PayloadInfo::from(Arc::new(ExceptionInfo { path: None, comment: comment.map(|s| s.to_string()) }))
}

impl MSet {
    pub fn from_items(items: impl IntoIterator<Item = MItem>) -> Self {
        let mut res = MSet::default();
        for item in items {
            res.insert(item);
        }
        res
    }
    /// Insert-or-replace (ASPA keyed by customer).
    pub fn insert(&mut self, item: MItem) {
        match item {
            MItem::Origin(o) => {
                self.origins.insert(o);
            }
            MItem::Key(k) => {
                self.keys.insert(k);
            }
            MItem::Aspa(a) => {
                self.aspas.insert(a.customer, a.providers);
            }
        }
    }
    pub fn len(&self) -> usize {
        self.origins.len() + self.keys.len() + self.aspas.len()
    }
    pub fn is_empty(&self) -> bool {
        self.len() == 0
    }
    pub fn items(&self) -> Vec<MItem> {
        let mut v: Vec<MItem> = self.origins.iter().cloned().map(MItem::Origin).collect();
        v.extend(self.keys.iter().cloned().map(MItem::Key));
        v.extend(self.aspas.iter().map(|(c, p)| MItem::Aspa(MAspa { customer: *c, providers: p.clone() })));
        v
    }
    pub fn to_snapshot(&self) -> PayloadSnapshot {
        self.to_snapshot_with(|_| exception_info(None))
    }
    pub fn to_snapshot_with(&self, info: impl Fn(&MItem) -> PayloadInfo) -> PayloadSnapshot {
        PayloadSnapshot::new(
            self.origins.iter().map(|o| (o.to_rpki(false), info(&MItem::Origin(o.clone())))),
            self.keys.iter().map(|k| (k.to_rpki(), info(&MItem::Key(k.clone())))),
            self.aspas.iter().map(|(c, p)| {
                let a = MAspa { customer: *c, providers: p.clone() };
                (a.to_rpki(), info(&MItem::Aspa(a)))
            }),
            None,
        )
    }
    pub fn from_snapshot(s: &PayloadSnapshot) -> Result<Self, String> {
        let mut res = MSet::default();
        for p in s.payload() {
            let item = MItem::from_ref(p);
            match &item {
                MItem::Origin(o) => {
                    if !res.origins.insert(o.clone()) {
                        return Err(format!("duplicate origin {:?}", o));
                    }
                }
                MItem::Key(k) => {
                    if !res.keys.insert(k.clone()) {
                        return Err(format!("duplicate key {:?}", k));
                    }
                }
                MItem::Aspa(a) => {
                    if res.aspas.insert(a.customer, a.providers.clone()).is_some() {
                        return Err(format!("duplicate aspa customer {}", a.customer));
                    }
                }
            }
        }
        Ok(res)
    }

    /// Applies a routinator delta the way an RTR client would. Errors on protocol-level
    /// inconsistencies (announce of something present, withdraw of something absent).
    pub fn apply(&self, actions: &[(MItem, bool)]) -> Result<MSet, String> {
        let mut res = self.clone();
        for (item, announce) in actions {
            match (item, announce) {
                (MItem::Origin(o), true) => {
                    if !res.origins.insert(o.clone()) {
                        return Err(format!("announce of present origin {:?}", o));
                    }
                }
                (MItem::Origin(o), false) => {
                    if !res.origins.remove(o) {
                        return Err(format!("withdraw of absent origin {:?}", o));
                    }
                }
                (MItem::Key(k), true) => {
                    if !res.keys.insert(k.clone()) {
                        return Err(format!("announce of present key {:?}", k));
                    }
                }
                (MItem::Key(k), false) => {
                    if !res.keys.remove(k) {
                        return Err(format!("withdraw of absent key {:?}", k));
                    }
                }
                (MItem::Aspa(a), true) => {
                    if res.aspas.get(&a.customer) == Some(&a.providers) {
                        return Err(format!("announce of identical aspa {:?}", a));
                    }
                    res.aspas.insert(a.customer, a.providers.clone());
                }
                (MItem::Aspa(a), false) => {
                    if res.aspas.remove(&a.customer).is_none() {
                        return Err(format!("withdraw of absent aspa {:?}", a));
                    }
                }
            }
        }
        Ok(res)
    }
}

/// (item, is_announce) list of a routinator delta in its iteration order.
pub fn delta_actions(d: &PayloadDelta) -> Vec<(MItem, bool)> {
    d.actions().map(|(p, a)| (MItem::from_ref(p), matches!(a, Action::Announce))).collect()
}

//------------------------------------------------------------------------------------------
// Generators

pub fn asn_strategy() -> impl Strategy<Value = u32> {
    prop_oneof![
        3 => prop::sample::select(vec![0u32, 1, 64496, 64497, 65535, 65536, u32::MAX]),
        1 => any::<u32>(),
    ]
}

pub fn v4_len() -> impl Strategy<Value = u8> {
    prop_oneof![3 => prop::sample::select(vec![0u8, 1, 8, 16, 24, 31, 32]), 1 => 0u8..=32]
}

pub fn v6_len() -> impl Strategy<Value = u8> {
    prop_oneof![3 => prop::sample::select(vec![0u8, 1, 32, 48, 64, 127, 128]), 1 => 0u8..=128]
}

/// Max-len class: 0 absent, 1 = len, 2 len+1, 3 family max, 4 random.
fn resolve_max(len: u8, fam: u8, class: u8, rnd: u8) -> Option<u8> {
    match class {
        0 => None,
        1 => Some(len),
        2 => Some((len + 1).min(fam)),
        3 => Some(fam),
        _ => Some(len + rnd % (fam - len + 1)),
    }
}

pub fn origin_strategy() -> impl Strategy<Value = MOrigin> {
    prop_oneof![
        (any::<u32>(), v4_len(), 0u8..5, any::<u8>(), asn_strategy()).prop_map(|(a, len, c, r, asn)| {
            // keep address pool small in the upper bits so relations between prefixes are common
            let a = a & 0xC0A8_FFFF | 0x0A00_0000;
            MOrigin::new(IpAddr::V4(Ipv4Addr::from(a)), len, resolve_max(len, 32, c, r), asn)
        }),
        (any::<u128>(), v6_len(), 0u8..5, any::<u8>(), asn_strategy()).prop_map(|(a, len, c, r, asn)| {
            let a = (a & 0x0000_0003_0000_0000_0000_0000_0000_FFFF_u128) | (0x2001_0db8_u128 << 96);
            MOrigin::new(IpAddr::V6(Ipv6Addr::from(a)), len, resolve_max(len, 128, c, r), asn)
        }),
    ]
}

pub fn key_strategy() -> impl Strategy<Value = MKey> {
    (0u8..4, asn_strategy(), prop::collection::vec(any::<u8>(), 1..=100), 0u8..3).prop_map(|(s, asn, info, infosel)| {
        let info = match infosel {
            0 => vec![0x30, 0x59, 0x01],
            1 => vec![0xAA; 91],
            _ => info,
        };
        MKey { ski: [s; 20], asn, info }
    })
}

pub fn aspa_strategy() -> impl Strategy<Value = MAspa> {
    (prop::sample::select(vec![64496u32, 64497, 64498, 0, u32::MAX]), prop::collection::btree_set(prop::sample::select(vec![1u32, 2, 3, 4, 65000, u32::MAX]), 0..=4))
        .prop_map(|(c, p)| MAspa::new(c, p))
}

pub fn item_strategy() -> impl Strategy<Value = MItem> {
    prop_oneof![
        4 => origin_strategy().prop_map(MItem::Origin),
        2 => key_strategy().prop_map(MItem::Key),
        2 => aspa_strategy().prop_map(MItem::Aspa),
    ]
}

/// A small universe of items; data sets are subsets of it so collisions between sets are frequent.
pub fn universe_strategy(max: usize) -> impl Strategy<Value = Vec<MItem>> {
    prop::collection::vec(item_strategy(), 1..=max)
}

/// A sequence of `n` data sets drawn from one universe by membership masks.
pub fn sets_strategy(min_sets: usize, max_sets: usize, universe: usize) -> impl Strategy<Value = Vec<MSet>> {
    (universe_strategy(universe), prop::collection::vec(prop::collection::vec(any::<bool>(), universe), min_sets..=max_sets)).prop_map(|(uni, masks)| {
        masks
            .iter()
            .map(|mask| MSet::from_items(uni.iter().zip(mask.iter()).filter(|(_, m)| **m).map(|(i, _)| i.clone())))
            .collect()
    })
}
