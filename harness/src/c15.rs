//! C15 Responses pair each serial with its own data.
//!
//! One updater thread performs `Server::process_once` calls (engine without TALs, the data set of
//! each call carried by the local exceptions) while 1–3 reader threads issue RTR queries through
//! the `PayloadSource` implementation of `SharedHistory` (`ready`, `full`, `diff`, `notify`) and
//! HTTP data requests (`/json`, `/csv`, `/json-delta[?session&serial]`) through the real
//! dispatcher. The schedule (generated choice bytes, or enumerated completely for small programs)
//! decides how the readers' lock acquisitions interleave with the updater's steps
//! (`mark_update_start`, `update`'s read and installing write, `mark_update_done`, notify).
//!
//! Oracle: the reference model maps serial k to the k-th distinct data set of the call sequence.
//! (a) pairing: every response that names (session, serial) carries exactly the set of that
//! serial, a delta answer from serial f to s turns set f into set s; (b) order: the serial of a
//! response is the one in force at the response's lock acquisition (trace position: number of
//! installing writes before it); (c) before the first installing write nothing is served
//! (`ready()` false, HTTP 503).

use std::collections::BTreeMap;
use std::sync::{Arc, Mutex};

use proptest::prelude::*;
use rpki::rtr::server::PayloadSource;
use serde::{Deserialize, Serialize};

use crate::core::*;
use crate::hist::{parse_delta_doc, rtr_diff, rtr_full, rtr_notify};
use crate::hsched::*;
use crate::parsers::parse_output;
use crate::pay::*;
use crate::sched::{self, BytesChooser, Chooser, Dfs, Event, Job, Opts};

#[derive(Serialize, Deserialize, Clone, Debug, PartialEq, Eq, Hash)]
pub enum ROp {
    /// Reset Query: `ready()`, then `full()`
    RtrFull,
    /// Serial Query with the client's serial: `ready()`, then `diff()`
    RtrDiff(u32),
    /// Serial Notify: `notify()`
    RtrNotify,
    Json,
    Csv,
    /// `/json-delta` without a version
    DeltaReset,
    /// `/json-delta?session=<current>&serial=<n>`
    Delta(u32),
}

#[derive(Serialize, Deserialize, Clone, Debug)]
pub struct Case {
    pub keep: usize,
    /// data set ids (see `hsched::set_of`) installed sequentially before the concurrent phase
    pub pre: Vec<u8>,
    /// data set ids of the updater's calls
    pub sets: Vec<u8>,
    pub readers: Vec<Vec<ROp>>,
    /// schedule; thread 0 = updater, 1.. = readers
    pub choices: Vec<u8>,
}

/// What one lock acquisition of a reader returned.
#[derive(Clone, Debug)]
pub enum Seen {
    Ready(bool),
    Full { session: u16, serial: u32, items: Vec<MItem> },
    Diff { from: u32, answer: Option<(u16, u32, Vec<(MItem, bool)>)> },
    Notify { session: u16, serial: u32 },
    Http { what: &'static str, from: Option<u32>, status: u16, etag: Option<String>, body: Vec<u8> },
}

#[derive(Clone, Debug)]
pub struct Obs {
    pub tid: usize,
    /// (operation index, micro index) within the thread
    pub id: (usize, usize),
    pub seen: Seen,
}

pub struct World<'a> {
    pub fx: &'a Fixture,
    pub configs: BTreeMap<usize, Arc<routinator::config::Config>>,
}

impl<'a> World<'a> {
    pub fn new(fx: &'a Fixture) -> Self {
        let mut configs = BTreeMap::new();
        for k in [1usize, 2, 10] {
            configs.insert(k, Arc::new(fx.config(k)));
        }
        World { fx, configs }
    }
    pub fn config(&self, keep: usize) -> Arc<routinator::config::Config> {
        self.configs.get(&keep).cloned().unwrap_or_else(|| Arc::new(self.fx.config(keep)))
    }
}

fn observe(out: &Arc<Mutex<Vec<Obs>>>, tid: usize, id: (usize, usize), f: impl FnOnce() -> Seen) -> Seen {
    sched::note(format!("o {} {} begin", id.0, id.1));
    let seen = f();
    sched::note(format!("o {} {} end", id.0, id.1));
    out.lock().unwrap().push(Obs { tid, id, seen: seen.clone() });
    seen
}

fn http(inst: &Inst, what: &'static str, uri: &str, from: Option<u32>) -> Seen {
    let r = request_now(&inst.handler, uri, &[]);
    Seen::Http { what, from, status: r.status, etag: r.header("etag").map(|s| s.to_string()), body: r.body() }
}

pub fn reader_job(inst: &Inst, tid: usize, ops: Vec<ROp>, session: u64, out: Arc<Mutex<Vec<Obs>>>) -> Job {
    let inst = inst.clone();
    Box::new(move || {
        for (k, op) in ops.iter().enumerate() {
            match op {
                ROp::RtrFull => {
                    // rpki::rtr::server answers "no data available" unless the source is ready
                    if let Seen::Ready(true) = observe(&out, tid, (k, 0), || Seen::Ready(inst.history.ready())) {
                        observe(&out, tid, (k, 1), || {
                            let (session, serial, items) = rtr_full(&inst.history);
                            Seen::Full { session, serial, items }
                        });
                    }
                }
                ROp::RtrDiff(from) => {
                    if let Seen::Ready(true) = observe(&out, tid, (k, 0), || Seen::Ready(inst.history.ready())) {
                        observe(&out, tid, (k, 1), || Seen::Diff { from: *from, answer: rtr_diff(&inst.history, session as u16, *from).map(|d| (d.session, d.serial, d.actions)) });
                    }
                }
                ROp::RtrNotify => {
                    observe(&out, tid, (k, 0), || {
                        let (session, serial) = rtr_notify(&inst.history);
                        Seen::Notify { session, serial }
                    });
                }
                ROp::Json => {
                    observe(&out, tid, (k, 0), || http(&inst, "json", "/json", None));
                }
                ROp::Csv => {
                    observe(&out, tid, (k, 0), || http(&inst, "csv", "/csv", None));
                }
                ROp::DeltaReset => {
                    observe(&out, tid, (k, 0), || http(&inst, "json-delta", "/json-delta", None));
                }
                ROp::Delta(from) => {
                    observe(&out, tid, (k, 0), || http(&inst, "json-delta", &format!("/json-delta?session={}&serial={}", session, from), Some(*from)));
                }
            }
        }
    })
}

/// Where an observation's lock acquisitions fall: (first, last) trace index of its `history.read` steps.
pub fn obs_reads(trace: &[Event], tid: usize, id: (usize, usize)) -> Option<(usize, usize)> {
    let b = trace.iter().position(|e| matches!(e, Event::Note { tid: t, text } if *t == tid && *text == format!("o {} {} begin", id.0, id.1)))?;
    let e = trace.iter().position(|e| matches!(e, Event::Note { tid: t, text } if *t == tid && *text == format!("o {} {} end", id.0, id.1)))?;
    let reads = steps_between(trace, tid, "history.read", b, e);
    Some((*reads.first()?, *reads.last()?))
}

pub fn parse_etag(etag: &str) -> Option<(u64, u32)> {
    let inner = etag.strip_prefix('"')?.strip_suffix('"')?;
    let (s, n) = inner.split_once('-')?;
    Some((u64::from_str_radix(s, 16).ok()?, n.parse().ok()?))
}

fn listed_set(format: &str, body: &[u8]) -> Result<MSet, String> {
    let l = parse_output(format, body)?;
    let mut set = MSet::default();
    for (o, _) in &l.origins {
        if !set.origins.insert(o.clone()) {
            return Err(format!("duplicate origin {:?}", o));
        }
    }
    for (k, _) in &l.keys {
        if !set.keys.insert(k.clone()) {
            return Err(format!("duplicate key {:?}", k));
        }
    }
    if !l.aspas.is_empty() {
        return Err("ASPAs listed although none was installed".into());
    }
    Ok(set)
}

fn set_from_items(items: &[MItem]) -> Result<MSet, String> {
    let set = MSet::from_items(items.iter().cloned());
    if set.len() != items.len() {
        return Err(format!("{} items but {} distinct", items.len(), set.len()));
    }
    Ok(set)
}

/// Judges one observation. `n` = (installs before its first read, installs before its last read).
/// `marks` = completed `mark_update_done` steps before its first read (over the whole history).
fn judge_obs(o: &Obs, n: (usize, usize), marks: usize, model: &Model, session: u64, info: &mut CaseInfo) -> Result<(), (String, String)> {
    let lo = if n.0 == 0 { None } else { Some(model.serial(n.0)) };
    let hi = if n.1 == 0 { None } else { Some(model.serial(n.1)) };
    let in_order = |serial: u32| -> bool { serial >= lo.unwrap_or(0) && serial <= hi.unwrap_or(0) };
    let fail = |k: &str, m: String| Err((format!("C15/{}", k), m));
    match &o.seen {
        Seen::Ready(r) => {
            if n.1 == 0 && *r {
                return fail("served-before-first-validation/rtr-ready", "ready() is true before the first data set was installed".into());
            }
            if n.0 >= 1 && !*r {
                return fail("not-ready-after-first-validation/rtr-ready", format!("ready() is false after {} data set(s) were installed", n.0));
            }
            info.class(if *r { "rtr-ready=true" } else { "rtr-ready=false(before first validation)" });
        }
        Seen::Full { session: s, serial, items } => {
            if *s != session as u16 {
                return fail("session-mismatch/rtr-full", format!("session {} != {}", s, session as u16));
            }
            let got = set_from_items(items).map_err(|e| ("C15/malformed/rtr-full".to_string(), e))?;
            match model.set_of(*serial) {
                Some(want) if *want == got => {}
                want => return fail("serial-data-mismatch/rtr-full", format!("Cache Response for serial {} carries {:?}, the data set of serial {} is {:?}", serial, got.items(), serial, want.map(|w| w.items()))),
            }
            if !in_order(*serial) {
                return fail("serial-out-of-order/rtr-full", format!("serial {} answered while serial(s) {:?}..={:?} were in force", serial, lo, hi));
            }
            info.class("rtr-full");
        }
        Seen::Diff { from, answer } => match answer {
            None => info.class("rtr-diff=refused"),
            Some((s, serial, actions)) => {
                if *s != session as u16 {
                    return fail("session-mismatch/rtr-diff", format!("session {} != {}", s, session as u16));
                }
                let (Some(base), Some(want)) = (model.set_of(*from), model.set_of(*serial)) else {
                    return fail("serial-data-mismatch/rtr-diff", format!("delta from serial {} to serial {}: no such serial(s) were ever produced ({} exist)", from, serial, model.by_serial.len()));
                };
                match base.apply(actions) {
                    Ok(res) if res == *want => {}
                    other => return fail("serial-data-mismatch/rtr-diff", format!("delta from serial {} tagged serial {} applied to the set of {} gives {:?}, the set of serial {} is {:?}", from, serial, from, other.map(|s| s.items()), serial, want.items())),
                }
                if !in_order(*serial) {
                    return fail("serial-out-of-order/rtr-diff", format!("serial {} answered while serial(s) {:?}..={:?} were in force", serial, lo, hi));
                }
                info.class(if actions.is_empty() { "rtr-diff=empty" } else { "rtr-diff=delta" });
            }
        },
        Seen::Notify { session: s, serial } => {
            if *s != session as u16 {
                return fail("session-mismatch/rtr-notify", format!("session {} != {}", s, session as u16));
            }
            if !in_order(*serial) {
                return fail("serial-out-of-order/rtr-notify", format!("Serial Notify {} while serial(s) {:?}..={:?} were in force", serial, lo, hi));
            }
            info.class("rtr-notify");
        }
        Seen::Http { what, from, status, etag, body } => {
            if *status != 200 {
                // before the first install nothing may be served; /json and /csv additionally wait
                // for the creation time set by the first mark_update_done
                if *status == 503 && (n.0 == 0 || (*what != "json-delta" && marks == 0)) {
                    info.class(format!("{}=503", what));
                    return Ok(());
                }
                return fail(&format!("unexpected-status/{}", what), format!("status {} after {} install(s) and {} completed update(s)", status, n.0, marks));
            }
            if n.1 == 0 {
                return fail(&format!("served-before-first-validation/{}", what), format!("200 with {} body bytes before the first data set was installed", body.len()));
            }
            match *what {
                "json" | "csv" => {
                    let Some((s, serial)) = etag.as_deref().and_then(parse_etag) else {
                        return fail(&format!("malformed/{}", what), format!("ETag {:?}", etag));
                    };
                    if s != session {
                        return fail(&format!("session-mismatch/{}", what), format!("ETag session {:x} != {:x}", s, session));
                    }
                    let got = listed_set(what, body).map_err(|e| (format!("C15/malformed/{}", what), e))?;
                    let Some(want) = model.set_of(serial) else {
                        return fail(&format!("serial-data-mismatch/{}", what), format!("ETag names serial {} which was never produced", serial));
                    };
                    let want = if *what == "csv" { MSet { origins: want.origins.clone(), ..Default::default() } } else { want.clone() };
                    if got != want {
                        return fail(&format!("serial-data-mismatch/{}", what), format!("ETag names serial {} but the body lists {:?}; the data set of serial {} is {:?}", serial, got.items(), serial, want.items()));
                    }
                    if !in_order(serial) {
                        return fail(&format!("serial-out-of-order/{}", what), format!("serial {} served while serial(s) {:?}..={:?} were in force", serial, lo, hi));
                    }
                    info.class(format!("{}=200", what));
                }
                _ => {
                    let doc = parse_delta_doc(body).map_err(|e| ("C15/malformed/json-delta".to_string(), e))?;
                    if doc.session != session {
                        return fail("session-mismatch/json-delta", format!("session {} != {}", doc.session, session));
                    }
                    let Some(want) = model.set_of(doc.serial) else {
                        return fail("serial-data-mismatch/json-delta", format!("document names serial {} which was never produced", doc.serial));
                    };
                    if doc.reset {
                        let got = set_from_items(&doc.announced).map_err(|e| ("C15/malformed/json-delta".to_string(), e))?;
                        if got != *want || !doc.withdrawn.is_empty() {
                            return fail("serial-data-mismatch/json-delta-reset", format!("reset document for serial {} lists {:?}; the data set of serial {} is {:?}", doc.serial, got.items(), doc.serial, want.items()));
                        }
                        info.class("json-delta=reset");
                    } else {
                        let f = doc.from_serial.or(*from).unwrap_or(0);
                        if Some(f) != *from {
                            return fail("serial-data-mismatch/json-delta", format!("asked for a delta from serial {:?}, document says fromSerial {}", from, f));
                        }
                        let Some(base) = model.set_of(f) else {
                            return fail("serial-data-mismatch/json-delta", format!("delta from serial {} which was never produced", f));
                        };
                        match base.apply(&doc.actions()) {
                            Ok(res) if res == *want => {}
                            other => return fail("serial-data-mismatch/json-delta", format!("delta document {} -> {} applied to the set of {} gives {:?}; the set of serial {} is {:?}", f, doc.serial, f, other.map(|s| s.items()), doc.serial, want.items())),
                        }
                        info.class(if doc.announced.is_empty() && doc.withdrawn.is_empty() { "json-delta=empty" } else { "json-delta=delta" });
                    }
                    if !in_order(doc.serial) {
                        return fail("serial-out-of-order/json-delta", format!("serial {} served while serial(s) {:?}..={:?} were in force", doc.serial, lo, hi));
                    }
                }
            }
        }
    }
    Ok(())
}

fn execute(world: &World<'_>, case: &Case, chooser: &mut dyn Chooser, info: &mut CaseInfo) -> Verdict {
    if case.sets.is_empty() || case.sets.len() > 4 || case.pre.len() > 3 || case.readers.is_empty() || case.readers.len() > 3 || case.readers.iter().any(|r| r.is_empty() || r.len() > 4) {
        return Verdict::Dropped("case_out_of_domain".into());
    }
    let inst = Inst::new(world.config(case.keep), world.fx.engine.clone());
    let all: Vec<MSet> = case.pre.iter().chain(case.sets.iter()).map(|i| set_of(*i)).collect();
    let model = Model::new(&all);
    {
        let mut n = inst.notify.clone();
        for (i, id) in case.pre.iter().enumerate() {
            if !inst.process_once(&mut n, &set_of(*id), i == 0) {
                return Verdict::Dropped("pre_run_failed".into());
            }
        }
    }
    let session = inst.session();
    let out: Arc<Mutex<Vec<Obs>>> = Default::default();
    let mut jobs: Vec<Job> = vec![updater_job(&inst, case.sets.iter().map(|i| set_of(*i)).collect(), case.pre.len())];
    for (r, ops) in case.readers.iter().enumerate() {
        jobs.push(reader_job(&inst, r + 1, ops.clone(), session, out.clone()));
    }
    let mut watch = Watch::new(&inst.history);
    let run = sched::run_opts(
        jobs,
        chooser,
        &mut |t| {
            watch.on_step(t);
            Ok(())
        },
        &Opts { stutter_labels: Some(STUTTER_LABELS), ..Default::default() },
    );
    if let Some((tid, msg)) = run.panics.first() {
        return Verdict::fail("C15/thread-panic", format!("thread {} panicked: {}", tid, msg));
    }
    if run.deadlock {
        return Verdict::fail("C15/deadlock", format!("all threads blocked; trace {}", render_trace(&run.trace)));
    }
    if run.diverged {
        return Verdict::Dropped("schedule_step_bound".into());
    }
    let trace = &run.trace;
    let mut ups = updater_positions(trace, 0);
    if ups.len() != case.sets.len() || !watch.apply(&mut ups) || ups.iter().any(|u| !u.ok || u.install.is_none() || u.mark_done.is_none()) {
        return Verdict::Dropped("updater_trace_incomplete".into());
    }
    let installs: Vec<usize> = ups.iter().map(|u| u.install.unwrap()).collect();
    let mark_dones: Vec<usize> = ups.iter().map(|u| u.mark_done.unwrap()).collect();
    let npre = case.pre.len();
    let observations = std::mem::take(&mut *out.lock().unwrap());
    let mut nt = false;
    for o in &observations {
        let Some((first, last)) = obs_reads(trace, o.tid, o.id) else {
            return Verdict::Dropped("observation_without_lock_step".into());
        };
        let n = (npre + count_before(&installs, first), npre + count_before(&installs, last));
        let marks = npre + count_before(&mark_dones, first);
        // where does the observation fall relative to the updater's calls?
        for (i, u) in ups.iter().enumerate() {
            if first > u.begin && first < u.end.unwrap_or(usize::MAX) {
                nt = true;
                let phase = if first < u.read.unwrap_or(0) {
                    "before-update"
                } else if first < u.install.unwrap() {
                    "between-update-read-and-install"
                } else if first < u.mark_done.unwrap() {
                    "between-install-and-mark-done"
                } else {
                    "between-mark-done-and-notify"
                };
                info.class(format!("reader-inside-call:{}{}", phase, if model.changed(npre + i) { "" } else { "(unchanged data)" }));
            }
        }
        if let Err((key, msg)) = judge_obs(o, n, marks, &model, session, info) {
            return Verdict::fail(key, format!("reader {} op {:?}: {}; trace: {}", o.tid, o.id, msg, render_trace(trace)));
        }
    }
    info.nt(nt);
    info.class(format!("readers={} calls={}", case.readers.len(), case.sets.len()));
    if npre == 0 {
        info.class("starts-before-first-validation");
    }
    Verdict::Pass
}

fn prop_sched(world: &World<'_>, case: &Case, info: &mut CaseInfo) -> Verdict {
    let mut ch = BytesChooser::new(&case.choices);
    execute(world, case, &mut ch, info)
}

fn rop_strategy() -> impl Strategy<Value = ROp> {
    prop_oneof![
        2 => Just(ROp::RtrFull),
        2 => (0u32..4).prop_map(ROp::RtrDiff),
        1 => Just(ROp::RtrNotify),
        2 => Just(ROp::Json),
        1 => Just(ROp::Csv),
        1 => Just(ROp::DeltaReset),
        2 => (0u32..4).prop_map(ROp::Delta),
    ]
}

fn case_strategy() -> impl Strategy<Value = Case> {
    (
        prop::sample::select(vec![1usize, 2, 10, 0]),
        prop::collection::vec(0u8..16, 0..=2),
        prop::collection::vec(0u8..16, 1..=3),
        prop::collection::vec(prop::collection::vec(rop_strategy(), 1..=3), 1..=3),
        prop::collection::vec(0u8..4, 0..64),
    )
        .prop_map(|(keep, pre, sets, readers, choices)| Case { keep, pre, sets, readers, choices })
}

fn dfs_programs(tier: Tier) -> Vec<Case> {
    let c = |pre: &[u8], sets: &[u8], readers: &[&[ROp]]| Case { keep: 10, pre: pre.to_vec(), sets: sets.to_vec(), readers: readers.iter().map(|r| r.to_vec()).collect(), choices: vec![] };
    use ROp::*;
    let mut v = vec![
        c(&[], &[1, 3], &[&[Json, Json]]),
        c(&[], &[5], &[&[RtrFull], &[Csv]]),
        c(&[1], &[3], &[&[RtrDiff(0), Delta(0)]]),
        c(&[1], &[3, 3], &[&[RtrFull, RtrNotify]]),
        c(&[1, 2], &[6], &[&[DeltaReset], &[RtrDiff(1)]]),
    ];
    v.push(c(&[], &[1, 3], &[&[RtrFull, Json], &[Delta(0)]]));
    if tier == Tier::Thorough {
        v.push(c(&[1], &[3, 7], &[&[RtrDiff(0), Json], &[Csv, Delta(1)]]));
    }
    v
}

fn run_dfs(ctx: &Ctx, rep: &mut Report, world: &World<'_>) {
    let bound = usize::MAX;
    let cap = ctx.tier.pick(1_500usize, 60_000);
    let mut per_program = Vec::new();
    let mut all_exhausted = true;
    let mut total = 0usize;
    for prog in dfs_programs(ctx.tier) {
        let mut dfs = Dfs::new();
        let mut n = 0usize;
        let mut exhausted = false;
        loop {
            let mut info = CaseInfo::default();
            let mut bounded = Bounded::new(&mut dfs, bound);
            let verdict = execute(world, &prog, &mut bounded, &mut info);
            n += 1;
            let case = Case { choices: bounded.taken.clone(), ..prog.clone() };
            rep.record(ctx, &Tagged { sub: "sched".to_string(), case }, &info, &verdict);
            if rep.violated() {
                return;
            }
            if !dfs.advance() {
                exhausted = true;
                break;
            }
            if n >= cap {
                break;
            }
        }
        total += n;
        all_exhausted &= exhausted;
        per_program.push(serde_json::json!({"pre": prog.pre, "sets": prog.sets, "readers": prog.readers, "schedules": n, "exhausted": exhausted}));
    }
    rep.extra.insert("dfs_schedules".into(), serde_json::json!(total));
    rep.extra.insert("dfs_programs".into(), serde_json::json!(per_program));
    rep.exhaustive = Some(all_exhausted);
}

/// Uncontrolled stress: one updater, 15 readers, pairing oracle only (no trace, so no order check).
fn run_stress(ctx: &Ctx, rep: &mut Report, world: &World<'_>) {
    let rounds = ctx.tier.pick(3usize, 40);
    let calls = ctx.tier.pick(150usize, 500);
    let mut responses = 0u64;
    for round in 0..rounds {
        let inst = Inst::new(world.config(10), world.fx.engine.clone());
        let ids: Vec<u8> = (0..calls).map(|i| ((i * 7 + round * 3) % 16) as u8 | if i % 5 == 0 { 0 } else { 1 }).collect();
        let sets: Vec<MSet> = ids.iter().map(|i| set_of(*i)).collect();
        let model = Model::new(&sets);
        let stop = std::sync::atomic::AtomicBool::new(false);
        let bad: Mutex<Option<(String, String)>> = Mutex::new(None);
        let count = std::sync::atomic::AtomicU64::new(0);
        std::thread::scope(|s| {
            for t in 0..15usize {
                let (inst, model, stop, bad, count) = (&inst, &model, &stop, &bad, &count);
                s.spawn(move || {
                    let session = inst.session();
                    let mut k = 0usize;
                    while !stop.load(std::sync::atomic::Ordering::Relaxed) {
                        k += 1;
                        let op = match (t + k) % 6 {
                            0 => ROp::RtrFull,
                            1 => ROp::Json,
                            2 => ROp::DeltaReset,
                            3 => ROp::RtrDiff(u32::from(inst.history.read().serial()).saturating_sub((k % 3) as u32)),
                            4 => ROp::Csv,
                            _ => ROp::Delta(u32::from(inst.history.read().serial()).saturating_sub((k % 4) as u32)),
                        };
                        let out: Arc<Mutex<Vec<Obs>>> = Default::default();
                        reader_job(inst, t, vec![op], session, out.clone())();
                        for o in out.lock().unwrap().iter() {
                            let mut info = CaseInfo::default();
                            // no trace: every position is admissible for the order check
                            let n = (if matches!(o.seen, Seen::Ready(false)) { 0 } else { 1 }, model.sets.len());
                            if matches!(o.seen, Seen::Ready(_)) {
                                continue;
                            }
                            if let Seen::Http { status, .. } = &o.seen {
                                if *status != 200 {
                                    continue;
                                }
                            }
                            count.fetch_add(1, std::sync::atomic::Ordering::Relaxed);
                            if let Err((key, msg)) = judge_obs(o, n, 1, model, session, &mut info) {
                                *bad.lock().unwrap() = Some((key.replace("C15/", "C15/stress/"), msg));
                                stop.store(true, std::sync::atomic::Ordering::Relaxed);
                            }
                        }
                    }
                });
            }
            let mut n = inst.notify.clone();
            for (i, set) in sets.iter().enumerate() {
                if stop.load(std::sync::atomic::Ordering::Relaxed) {
                    break;
                }
                inst.process_once(&mut n, set, i == 0);
            }
            stop.store(true, std::sync::atomic::Ordering::Relaxed);
        });
        responses += count.load(std::sync::atomic::Ordering::Relaxed);
        if let Some((key, msg)) = bad.into_inner().unwrap() {
            let case = Tagged { sub: "stress".to_string(), case: serde_json::json!({"round": round}) };
            rep.failure(ctx, &case, &key, &msg);
            break;
        }
    }
    rep.extra.insert("stress_rounds".into(), serde_json::json!(rounds));
    rep.extra.insert("stress_calls_per_round".into(), serde_json::json!(calls));
    rep.extra.insert("stress_responses_judged".into(), serde_json::json!(responses));
}

pub fn run(ctx: &Ctx, rep: &mut Report, replay: Option<&serde_json::Value>) {
    rep.rule("thread 0 performs 1-3 Server::process_once calls (engine without TALs; data set = subset of 3 origins + 1 router key carried by local exceptions; repeats included), 0-2 calls were made before; 1-3 reader threads x 1-3 operations: RTR reset query (ready + full), serial query (ready + diff from serial 0..3), notify, GET /json, /csv, /json-delta, /json-delta?session&serial through the real dispatcher, futures polled by hand; schedules over history.read/history.write try-locks and process_once.before_notify: (dfs) every schedule of 5 programs (thorough 7, capped), (sched) generated programs with generated choice strings, (stress) 15 uncontrolled readers against 150-500 calls; oracle: serial k <-> k-th distinct data set of the call sequence; every response naming (session, serial) carries exactly that set / a delta turning set f into set s; the serial is the one in force at the response's lock acquisition; nothing served before the first install; non-trivial = a reader's lock acquisition falls inside a process_once call (between its first and last step); distinct by program+schedule");
    rep.assume("one controlled thread runs at a time (sequentially consistent interleavings at yield-point granularity); regions without yield points (inside a held lock) are only raced by the uncontrolled stress rounds");
    rep.assume("the engine has no TALs: the served data set of a call is exactly its local exceptions");
    let fx = Fixture::new(ctx);
    let world = World::new(&fx);
    if let Some(v) = replay {
        let t: Tagged<serde_json::Value> = serde_json::from_value(v.clone()).expect("replay");
        match t.sub.as_str() {
            "sched" => run_case(ctx, rep, "sched", &serde_json::from_value::<Case>(t.case).expect("case"), |c, i| prop_sched(&world, c, i)),
            "stress" => run_stress(ctx, rep, &world),
            other => panic!("unknown sub {}", other),
        }
        return;
    }
    run_dfs(ctx, rep, &world);
    if rep.violated() {
        return;
    }
    run_prop(ctx, rep, "sched", ctx.tier.pick(6_000, 150_000), case_strategy(), |c, i| prop_sched(&world, c, i));
    if rep.violated() {
        return;
    }
    run_stress(ctx, rep, &world);
}
