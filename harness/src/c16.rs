//! C16 HTTP 304 only when the client already has the served version.
//!
//! As C15 (updater thread performing `Server::process_once` calls, reader threads going through the
//! real dispatcher, harness-owned schedule), with a client that remembers every validator pair
//! (ETag, Last-Modified) a 200 response ever carried, together with the version it was issued for,
//! and replays any of them as `If-None-Match` and/or `If-Modified-Since` at any point of the
//! updater's sequence, in particular between `update` (new data installed) and `mark_update_done`
//! (creation time recorded).
//!
//! Oracle (property statement): a 304 is legitimate only if one of the presented validators was
//! issued for the version that is served at the moment of the request's lock acquisition (trace
//! position => number of installs before it => serial of the reference model). Additionally an
//! ETag must never be issued for two different versions (otherwise some 304 for it is wrong).
//!
//! What this check can and cannot reach is stated in `rep.assume` below and in MANIFEST.json: with
//! the real clock, `If-Modified-Since` carrying a Last-Modified issued by routinator yields 304
//! only if the recorded creation time has a zero sub-second part (probability ~1e-9 per update),
//! because `maybe_not_modified` compares the whole-second date with the nanosecond `created`.

use std::collections::{BTreeMap, BTreeSet};
use std::sync::{Arc, Mutex};

use proptest::prelude::*;
use serde::{Deserialize, Serialize};

use crate::c15::{obs_reads, parse_etag, World};
use crate::core::*;
use crate::hsched::*;
use crate::pay::*;
use crate::sched::{self, BytesChooser, Chooser, Dfs, Job, Opts};

#[derive(Serialize, Deserialize, Clone, Debug, PartialEq, Eq, Hash)]
pub enum COp {
    /// plain GET (collects validators); csv or json
    Get { csv: bool },
    /// conditional GET replaying stored validator number `pick` (mod number stored)
    Cond {
        pick: u8,
        etag: bool,
        date: bool,
        csv: bool,
        /// additionally list a second stored ETag (`pick2`) in If-None-Match
        pick2: Option<u8>,
    },
}

#[derive(Serialize, Deserialize, Clone, Debug)]
pub struct Case {
    pub keep: usize,
    /// data set ids installed sequentially before the concurrent phase (>= 1); after each of them
    /// the client fetches /json and /csv and stores the validators
    pub pre: Vec<u8>,
    pub sets: Vec<u8>,
    pub readers: Vec<Vec<COp>>,
    pub choices: Vec<u8>,
}

/// A stored validator pair and where it came from.
#[derive(Clone, Debug)]
struct Val {
    etag: String,
    date: String,
    /// serial it was issued for, if already known (sequential phase); otherwise the issuing observation
    serial: Option<u32>,
    origin: Option<(usize, usize)>,
}

#[derive(Clone, Debug)]
struct CObs {
    tid: usize,
    k: usize,
    csv: bool,
    status: u16,
    etag: Option<String>,
    date: Option<String>,
    /// indices into the store of the presented validators: (etag ones, date one)
    sent_etags: Vec<usize>,
    sent_date: Option<usize>,
}

fn headers_of(r: &routinator::http::verif::PlainResponse) -> (Option<String>, Option<String>) {
    (r.header("etag").map(|s| s.to_string()), r.header("last-modified").map(|s| s.to_string()))
}

fn reader_job(inst: &Inst, tid: usize, ops: Vec<COp>, store: Arc<Mutex<Vec<Val>>>, out: Arc<Mutex<Vec<CObs>>>) -> Job {
    let inst = inst.clone();
    Box::new(move || {
        for (k, op) in ops.iter().enumerate() {
            let (csv, headers, sent_etags, sent_date) = match op {
                COp::Get { csv } => (*csv, Vec::new(), Vec::new(), None),
                COp::Cond { pick, etag, date, csv, pick2 } => {
                    let st = store.lock().unwrap();
                    if st.is_empty() {
                        (*csv, Vec::new(), Vec::new(), None)
                    } else {
                        let i = *pick as usize % st.len();
                        let mut headers = Vec::new();
                        let mut sent_etags = Vec::new();
                        let mut sent_date = None;
                        if *etag || !*date {
                            let mut value = st[i].etag.clone();
                            sent_etags.push(i);
                            if let Some(p2) = pick2 {
                                let j = *p2 as usize % st.len();
                                value = format!("{}, {}", st[j].etag, value);
                                sent_etags.push(j);
                            }
                            headers.push(("If-None-Match".to_string(), value));
                        }
                        if *date {
                            headers.push(("If-Modified-Since".to_string(), st[i].date.clone()));
                            sent_date = Some(i);
                        }
                        (*csv, headers, sent_etags, sent_date)
                    }
                }
            };
            sched::note(format!("o {} 0 begin", k));
            let r = request_now(&inst.handler, if csv { "/csv" } else { "/json" }, &headers);
            sched::note(format!("o {} 0 end", k));
            let (etag, date) = headers_of(&r);
            if r.status == 200 {
                if let (Some(e), Some(d)) = (&etag, &date) {
                    store.lock().unwrap().push(Val { etag: e.clone(), date: d.clone(), serial: None, origin: Some((tid, k)) });
                }
            }
            out.lock().unwrap().push(CObs { tid, k, csv, status: r.status, etag, date, sent_etags, sent_date });
        }
    })
}

fn execute(world: &World<'_>, case: &Case, chooser: &mut dyn Chooser, info: &mut CaseInfo) -> Verdict {
    if case.pre.is_empty() || case.pre.len() > 3 || case.sets.is_empty() || case.sets.len() > 4 || case.readers.is_empty() || case.readers.len() > 3 || case.readers.iter().any(|r| r.is_empty() || r.len() > 4) {
        return Verdict::Dropped("case_out_of_domain".into());
    }
    let inst = Inst::new(world.config(case.keep), world.fx.engine.clone());
    let all: Vec<MSet> = case.pre.iter().chain(case.sets.iter()).map(|i| set_of(*i)).collect();
    let model = Model::new(&all);
    let store: Arc<Mutex<Vec<Val>>> = Default::default();
    {
        let mut n = inst.notify.clone();
        for (i, id) in case.pre.iter().enumerate() {
            if !inst.process_once(&mut n, &set_of(*id), i == 0) {
                return Verdict::Dropped("pre_run_failed".into());
            }
            for uri in ["/json", "/csv"] {
                let r = request_now(&inst.handler, uri, &[]);
                let (e, d) = headers_of(&r);
                match (r.status, e, d) {
                    (200, Some(e), Some(d)) => store.lock().unwrap().push(Val { etag: e, date: d, serial: Some(model.serial(i + 1)), origin: None }),
                    (status, e, d) => return Verdict::fail("C16/no-validators-issued", format!("GET {} after a completed validation: status {}, ETag {:?}, Last-Modified {:?}", uri, status, e, d)),
                }
            }
        }
    }
    let session = inst.session();
    let out: Arc<Mutex<Vec<CObs>>> = Default::default();
    let mut jobs: Vec<Job> = vec![updater_job(&inst, case.sets.iter().map(|i| set_of(*i)).collect(), case.pre.len())];
    for (r, ops) in case.readers.iter().enumerate() {
        jobs.push(reader_job(&inst, r + 1, ops.clone(), store.clone(), out.clone()));
    }
    let mut watch = Watch::new(&inst.history);
    let run = sched::run_opts(
        jobs,
        chooser,
        &mut |t| {
            watch.on_step(t);
            Ok(())
        },
        &Opts { stutter_labels: Some(STUTTER_LABELS), ..Default::default() },
    );
    if let Some((tid, msg)) = run.panics.first() {
        return Verdict::fail("C16/thread-panic", format!("thread {} panicked: {}", tid, msg));
    }
    if run.deadlock {
        return Verdict::fail("C16/deadlock", format!("all threads blocked; trace {}", render_trace(&run.trace)));
    }
    if run.diverged {
        return Verdict::Dropped("schedule_step_bound".into());
    }
    let trace = &run.trace;
    let mut ups = updater_positions(trace, 0);
    if ups.len() != case.sets.len() || !watch.apply(&mut ups) || ups.iter().any(|u| !u.ok || u.install.is_none() || u.mark_done.is_none()) {
        return Verdict::Dropped("updater_trace_incomplete".into());
    }
    let installs: Vec<usize> = ups.iter().map(|u| u.install.unwrap()).collect();
    let npre = case.pre.len();
    let obs = std::mem::take(&mut *out.lock().unwrap());
    let store = std::mem::take(&mut *store.lock().unwrap());

    // serial in force at each observation
    let mut at: BTreeMap<(usize, usize), (usize, u32)> = BTreeMap::new();
    for o in &obs {
        let Some((first, last)) = obs_reads(trace, o.tid, (o.k, 0)) else { return Verdict::Dropped("observation_without_lock_step".into()) };
        if first != last {
            return Verdict::Dropped("observation_with_two_lock_steps".into());
        }
        at.insert((o.tid, o.k), (first, model.serial(npre + count_before(&installs, first))));
    }
    let issued_for = |v: &Val| -> u32 { v.serial.unwrap_or_else(|| at[&v.origin.unwrap()].1) };

    // ---- every ETag belongs to one version ----
    let mut etag_serials: BTreeMap<String, BTreeSet<u32>> = BTreeMap::new();
    let mut date_serials: BTreeMap<String, BTreeSet<u32>> = BTreeMap::new();
    for v in &store {
        etag_serials.entry(v.etag.clone()).or_default().insert(issued_for(v));
        date_serials.entry(v.date.clone()).or_default().insert(issued_for(v));
    }
    for o in obs.iter().filter(|o| o.status == 304) {
        // a 304 repeats the validators of the version the server believes it is serving
        if let Some(e) = &o.etag {
            etag_serials.entry(e.clone()).or_default().insert(at[&(o.tid, o.k)].1);
        }
    }
    if let Some((etag, serials)) = etag_serials.iter().find(|(_, s)| s.len() > 1) {
        return Verdict::fail("C16/etag-issued-for-two-versions", format!("ETag {} was issued while serials {:?} were served; trace: {}", etag, serials, render_trace(trace)));
    }
    if date_serials.values().any(|s| s.len() > 1) {
        info.class("info:last-modified-shared-by-two-versions(update window)");
    }
    for v in &store {
        match parse_etag(&v.etag) {
            Some((s, n)) if s == session && n == issued_for(v) => {}
            _ => return Verdict::fail("C16/etag-names-other-version", format!("ETag {} issued while (session {:x}, serial {}) was served", v.etag, session, issued_for(v))),
        }
    }

    // ---- 304 only for a validator of the served version ----
    let mut nt = false;
    for o in &obs {
        let (pos, cur) = at[&(o.tid, o.k)];
        let window = ups.iter().enumerate().find(|(_, u)| pos > u.install.unwrap() && pos < u.mark_done.unwrap()).map(|(i, _)| i);
        let presented: Vec<(&'static str, u32)> = o.sent_etags.iter().map(|i| ("etag", issued_for(&store[*i]))).chain(o.sent_date.iter().map(|i| ("last-modified", issued_for(&store[*i])))).collect();
        if presented.is_empty() {
            info.class(format!("get={}", o.status));
            continue;
        }
        let stale_only = presented.iter().all(|(_, s)| *s != cur);
        if let Some(i) = window {
            if model.changed(npre + i) && presented.iter().any(|(_, s)| *s + 1 == cur) {
                nt = true;
                info.class("nt:previous-version-validator-inside-update-window");
            }
            info.class(format!("conditional-inside-update-window:{}", if model.changed(npre + i) { "changed" } else { "unchanged" }));
        }
        let kinds: String = presented.iter().map(|(k, _)| *k).collect::<BTreeSet<_>>().into_iter().collect::<Vec<_>>().join("+");
        match o.status {
            304 => {
                if stale_only {
                    let which = if o.sent_etags.is_empty() { "last-modified" } else if o.sent_date.is_none() { "etag" } else { "etag+last-modified" };
                    let place = if window.is_some() { "inside-update-window" } else { "outside-update-window" };
                    return Verdict::fail(
                        format!("C16/304-for-stale-validator/{}/{}", which, place),
                        format!(
                            "reader {} op {} ({}) got 304 while serial {} was served; presented validators were issued for serial(s) {:?} (If-None-Match {:?}, If-Modified-Since {:?}); trace: {}",
                            o.tid,
                            o.k,
                            if o.csv { "/csv" } else { "/json" },
                            cur,
                            presented,
                            o.sent_etags.iter().map(|i| store[*i].etag.clone()).collect::<Vec<_>>(),
                            o.sent_date.map(|i| store[i].date.clone()),
                            render_trace(trace)
                        ),
                    );
                }
                // which validator earned it?
                let by_etag = o.sent_etags.iter().any(|i| issued_for(&store[*i]) == cur);
                info.class(if by_etag { "304:etag-of-served-version" } else { "304:last-modified-of-served-version" });
            }
            200 => {
                info.class(format!("conditional[{}]=200:{}", kinds, if stale_only { "stale-validator" } else { "validator-of-served-version" }));
            }
            other => return Verdict::fail("C16/unexpected-status", format!("status {} for a conditional request after the first validation", other)),
        }
    }
    info.nt(nt);
    info.class(format!("readers={} calls={}", case.readers.len(), case.sets.len()));
    Verdict::Pass
}

fn prop_sched(world: &World<'_>, case: &Case, info: &mut CaseInfo) -> Verdict {
    let mut ch = BytesChooser::new(&case.choices);
    execute(world, case, &mut ch, info)
}

fn cop_strategy() -> impl Strategy<Value = COp> {
    prop_oneof![
        1 => any::<bool>().prop_map(|csv| COp::Get { csv }),
        5 => (any::<u8>(), prop_oneof![Just((true, false)), Just((false, true)), Just((true, true))], prop::bool::weighted(0.3), prop::option::weighted(0.2, any::<u8>()))
            .prop_map(|(pick, (etag, date), csv, pick2)| COp::Cond { pick, etag, date, csv, pick2 }),
    ]
}

fn case_strategy() -> impl Strategy<Value = Case> {
    (
        prop::sample::select(vec![1usize, 2, 10, 0]),
        prop::collection::vec(0u8..16, 1..=2),
        prop::collection::vec(0u8..16, 1..=3),
        prop::collection::vec(prop::collection::vec(cop_strategy(), 1..=3), 1..=3),
        prop::collection::vec(0u8..4, 0..64),
    )
        .prop_map(|(keep, pre, sets, readers, choices)| Case { keep, pre, sets, readers, choices })
}

fn dfs_programs(tier: Tier) -> Vec<Case> {
    let c = |pre: &[u8], sets: &[u8], readers: &[&[COp]]| Case { keep: 10, pre: pre.to_vec(), sets: sets.to_vec(), readers: readers.iter().map(|r| r.to_vec()).collect(), choices: vec![] };
    let cond = |pick: u8, etag: bool, date: bool| COp::Cond { pick, etag, date, csv: false, pick2: None };
    // store after `pre = [1]`: 0 = /json validators of serial 0, 1 = /csv validators of serial 0
    let mut v = vec![
        c(&[1], &[3], &[&[cond(0, true, false), cond(0, true, false)]]),
        c(&[1], &[3], &[&[cond(0, false, true), cond(0, false, true)]]),
        c(&[1], &[3], &[&[cond(0, true, true)], &[COp::Get { csv: false }, cond(2, true, true)]]),
        c(&[1], &[1, 3], &[&[cond(0, false, true), cond(0, true, false)]]),
        c(&[1, 3], &[1], &[&[COp::Cond { pick: 2, etag: true, date: false, csv: true, pick2: Some(0) }, cond(2, true, true)]]),
    ];
    v.push(c(&[1], &[3, 7], &[&[COp::Get { csv: false }, cond(2, true, true)], &[cond(0, false, true)]]));
    // history-size 0: the version identifier must still advance with every change
    v.push(Case { keep: 0, ..c(&[1], &[3, 1], &[&[cond(0, true, false), cond(0, true, true)]]) });
    if tier == Tier::Thorough {
        v.push(c(&[1], &[3, 3, 1], &[&[cond(0, true, true), COp::Get { csv: true }, cond(2, false, true)]]));
    }
    v
}

fn run_dfs(ctx: &Ctx, rep: &mut Report, world: &World<'_>) {
    let bound = usize::MAX;
    let cap = ctx.tier.pick(1_500usize, 60_000);
    let mut per_program = Vec::new();
    let mut all_exhausted = true;
    let mut total = 0usize;
    for prog in dfs_programs(ctx.tier) {
        let mut dfs = Dfs::new();
        let mut n = 0usize;
        let mut exhausted = false;
        loop {
            let mut info = CaseInfo::default();
            let mut bounded = Bounded::new(&mut dfs, bound);
            let verdict = execute(world, &prog, &mut bounded, &mut info);
            n += 1;
            let case = Case { choices: bounded.taken.clone(), ..prog.clone() };
            rep.record(ctx, &Tagged { sub: "sched".to_string(), case }, &info, &verdict);
            if rep.violated() {
                return;
            }
            if !dfs.advance() {
                exhausted = true;
                break;
            }
            if n >= cap {
                break;
            }
        }
        total += n;
        all_exhausted &= exhausted;
        per_program.push(serde_json::json!({"pre": prog.pre, "sets": prog.sets, "readers": prog.readers, "schedules": n, "exhausted": exhausted}));
    }
    rep.extra.insert("dfs_schedules".into(), serde_json::json!(total));
    rep.extra.insert("dfs_programs".into(), serde_json::json!(per_program));
    rep.exhaustive = Some(all_exhausted);
}

pub fn run(ctx: &Ctx, rep: &mut Report, replay: Option<&serde_json::Value>) {
    rep.rule("as C15: thread 0 performs 1-3 Server::process_once calls (changing and unchanged data sets) after 1-2 sequential calls; the client stored the (ETag, Last-Modified) of /json and /csv after every sequential call and stores those of every later 200 response, each with the version it was issued for; 1-3 reader threads x 1-3 requests: plain GET or conditional GET replaying a stored pair as If-None-Match (optionally a list of two stored ETags), If-Modified-Since or both, on /json or /csv, scheduled at any yield point including between update's installing write and mark_update_done; (dfs) every schedule of 5 programs (thorough 7, capped), (sched) generated programs and choice strings; oracle: 304 => one of the presented validators was issued for the serial in force at the request's lock acquisition; no ETag is issued for two different versions; every ETag names the version it was issued for; non-trivial = a conditional request carrying a validator of the previous version acquires the lock between the installing write and mark_update_done of a changing update; distinct by program+schedule");
    rep.assume("the wall clock is not controlled: Last-Modified has whole seconds while the recorded creation time has nanoseconds and maybe_not_modified compares `date >= created`, so an If-Modified-Since carrying a date issued by routinator can only produce 304 when the creation time has a zero sub-second part (about 1e-9 per update); the suspected window defect (new serial paired with the old creation time between update and mark_update_done => 304 for the previous version's Last-Modified) needs exactly that and is not reachable by this check; the check is sensitive to whole-second comparison, ETag mix-ups and ETag reuse (see MANIFEST note)");
    rep.assume("one controlled thread runs at a time (sequentially consistent interleavings at yield-point granularity)");
    let fx = Fixture::new(ctx);
    let world = World::new(&fx);
    if let Some(v) = replay {
        let t: Tagged<Case> = serde_json::from_value(v.clone()).expect("replay");
        run_case(ctx, rep, "sched", &t.case, |c, i| prop_sched(&world, c, i));
        return;
    }
    run_dfs(ctx, rep, &world);
    if rep.violated() {
        return;
    }
    run_prop(ctx, rep, "sched", ctx.tier.pick(6_000, 150_000), case_strategy(), |c, i| prop_sched(&world, c, i));
}
