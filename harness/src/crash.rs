//! E-crash: a victim child process that performs one engine run over the directories of an
//! E-rpki world and can be killed at a numbered kill point (feature `verif-hooks`:
//! `ROUTINATOR_VERIF_KILL_TRACE`, `ROUTINATOR_VERIF_KILL_AT`), plus the bookkeeping around it
//! (tree copies, trace parsing, selection of the points to explore, directory listings).
//!
//! The kill is `abort()` inside the victim: no destructors run, buffered data is lost, temporary
//! files stay behind. That is faithful to SIGKILL. Re-ordering of writes by a power loss is out of
//! scope.

use std::collections::BTreeSet;
use std::path::{Path, PathBuf};
use std::process::Command;
use std::time::Duration;

use serde::{Deserialize, Serialize};

use crate::clibin::{run_watchdog, ProcResult};
use crate::erpki::*;
use crate::pay::MSet;

/// What the victim is asked to do: one engine run (`rvchild crash-victim <job.json>`).
#[derive(Serialize, Deserialize, Clone, Debug)]
pub struct VictimJob {
    pub cfg: Cfg,
    pub paths: WorldPaths,
    pub offline: bool,
    /// where the victim writes its result (only reached when it was not killed)
    pub out: PathBuf,
}

#[derive(Serialize, Deserialize, Clone, Debug)]
pub struct VictimResult {
    pub ok: bool,
    pub error: Option<String>,
    pub payload: MSet,
    pub kill_points: u64,
}

/// Body of `rvchild crash-victim <job.json>`. Exit 0 = run succeeded, 3 = run failed, 2 = bad job.
pub fn victim_main(args: &[String]) -> i32 {
    let Some(path) = args.first() else {
        eprintln!("crash-victim: job file missing");
        return 2;
    };
    let job: VictimJob = match std::fs::read(path).map_err(|e| e.to_string()).and_then(|d| serde_json::from_slice(&d).map_err(|e| e.to_string())) {
        Ok(j) => j,
        Err(e) => {
            eprintln!("crash-victim: {}: {}", path, e);
            return 2;
        }
    };
    let config = config_for(&job.cfg, &job.paths);
    // optional cap on any single allocation (C27 engine leg): exceeding it ends the process with exit 77
    if let Some(limit) = std::env::var("RV_ALLOC_LIMIT").ok().and_then(|v| v.parse::<usize>().ok()) {
        crate::bw::arm(limit);
    }
    let res = run_config(&config, job.offline, &empty_exceptions());
    let kill_points = routinator::verif::kill_count();
    let (code, result) = match res {
        Ok(out) => (0, VictimResult { ok: true, error: None, payload: out.payload, kill_points }),
        Err(e) => (3, VictimResult { ok: false, error: Some(e), payload: MSet::default(), kill_points }),
    };
    if let Err(e) = std::fs::write(&job.out, serde_json::to_vec(&result).unwrap()) {
        eprintln!("crash-victim: cannot write {}: {}", job.out.display(), e);
        return 2;
    }
    code
}

pub fn rvchild_exe() -> PathBuf {
    std::env::current_exe().expect("current_exe").with_file_name("rvchild")
}

/// Runs the victim. `kill_at` = None: complete run (pass 0, counting). The trace file receives
/// one "<n> <label>" line per kill point passed.
pub fn spawn_victim(job: &VictimJob, dir: &Path, kill_at: Option<u64>) -> Result<ProcResult, String> {
    std::fs::create_dir_all(dir).map_err(|e| e.to_string())?;
    let job_path = dir.join("job.json");
    std::fs::write(&job_path, serde_json::to_vec(job).unwrap()).map_err(|e| e.to_string())?;
    let trace = dir.join("trace");
    let _ = std::fs::remove_file(&trace);
    let _ = std::fs::remove_file(&job.out);
    let mut cmd = Command::new(rvchild_exe());
    cmd.arg("crash-victim").arg(&job_path).current_dir(dir).env("ROUTINATOR_VERIF_KILL_TRACE", &trace).env_remove("ROUTINATOR_VERIF_KILL_AT").env_remove("ROUTINATOR_VERIF_OUTCOMES");
    if let Some(k) = kill_at {
        cmd.env("ROUTINATOR_VERIF_KILL_AT", k.to_string());
    }
    run_watchdog(cmd, dir, Duration::from_secs(120))
}

pub fn read_victim_result(job: &VictimJob) -> Option<VictimResult> {
    std::fs::read(&job.out).ok().and_then(|d| serde_json::from_slice(&d).ok())
}

/// Labels of the kill points passed, in order (index 0 = point 1).
pub fn read_trace(dir: &Path) -> Vec<String> {
    let text = std::fs::read_to_string(dir.join("trace")).unwrap_or_default();
    let mut res = Vec::new();
    for line in text.lines() {
        let mut it = line.splitn(2, ' ');
        let (Some(n), Some(label)) = (it.next(), it.next()) else { continue };
        if n.parse::<u64>().is_ok() {
            res.push(label.to_string());
        }
    }
    res
}

/// Was the process ended by `abort()`?
pub fn aborted(p: &ProcResult) -> bool {
    p.signal == Some(libc::SIGABRT)
}

/// The kill points (1-based) to explore: all when `labels.len() <= cap`, else the first and last
/// 20, every point whose label differs from its predecessor's, and a seeded sample up to `cap`.
pub fn select_points(labels: &[String], cap: usize, seed: u64) -> Vec<u64> {
    let m = labels.len();
    if m <= cap {
        return (1..=m as u64).collect();
    }
    let mut set: BTreeSet<u64> = BTreeSet::new();
    for k in 1..=20.min(m) {
        set.insert(k as u64);
        set.insert((m + 1 - k) as u64);
    }
    for i in 1..m {
        if labels[i] != labels[i - 1] {
            set.insert(i as u64 + 1);
        }
    }
    // splitmix64 stream over the remaining points
    let mut x = seed;
    let mut next = || {
        x = x.wrapping_add(0x9E37_79B9_7F4A_7C15);
        let mut z = x;
        z = (z ^ (z >> 30)).wrapping_mul(0xBF58_476D_1CE4_E5B9);
        z = (z ^ (z >> 27)).wrapping_mul(0x94D0_49BB_1331_11EB);
        z ^ (z >> 31)
    };
    let mut guard = 0;
    while set.len() < cap && guard < cap * 50 {
        set.insert(1 + next() % m as u64);
        guard += 1;
    }
    set.into_iter().collect()
}

/// Recursive copy of a directory tree (regular files and directories only).
pub fn copy_tree(src: &Path, dst: &Path) -> std::io::Result<()> {
    std::fs::create_dir_all(dst)?;
    for entry in std::fs::read_dir(src)? {
        let entry = entry?;
        let ft = entry.file_type()?;
        let to = dst.join(entry.file_name());
        if ft.is_dir() {
            copy_tree(&entry.path(), &to)?;
        } else if ft.is_file() {
            std::fs::copy(entry.path(), &to)?;
        }
    }
    Ok(())
}

/// All paths below `root` (relative, '/'-separated); directories carry a trailing '/'.
pub fn list_tree(root: &Path) -> BTreeSet<String> {
    fn walk(root: &Path, dir: &Path, out: &mut BTreeSet<String>) {
        let Ok(rd) = std::fs::read_dir(dir) else { return };
        for e in rd.flatten() {
            let p = e.path();
            let rel = p.strip_prefix(root).unwrap().to_string_lossy().into_owned();
            if p.is_dir() {
                out.insert(format!("{}/", rel));
                walk(root, &p, out);
            } else {
                out.insert(rel);
            }
        }
    }
    let mut out = BTreeSet::new();
    walk(root, root, &mut out);
    out
}

/// A routinator configuration file for the hooked CLI binary over the given world directories
/// (written with routinator's own `Display for Config`).
pub fn write_cli_config(cfg: &Cfg, paths: &WorldPaths) -> Result<(), String> {
    let config = config_for(cfg, paths);
    std::fs::write(&paths.conf, format!("{}", config)).map_err(|e| format!("{}: {}", paths.conf.display(), e))
}

/// `routinator -c <conf> <args…>` with the hooked binary; no kill environment.
pub fn cli_command(bin: &Path, paths: &WorldPaths, dir: &Path, args: &[&str]) -> Command {
    let mut cmd = Command::new(bin);
    cmd.current_dir(dir)
        .env_clear()
        .env("HOME", dir)
        .env("PATH", "/usr/bin:/bin")
        .arg("-c")
        .arg(&paths.conf)
        .args(args);
    cmd
}
