//! C10 Trust anchors are bound to their TAL key (rsync transport leg).

use proptest::prelude::*;

use crate::core::*;
use crate::erpki::*;
use crate::erun::*;
use crate::escen::*;

pub fn scenario(words: &[u16]) -> Scenario {
    let mut hp = HistProfile::default();
    hp.base.fault_16 = 0;
    hp.base.obj_faults = false;
    hp.base.pp_faults = false;
    hp.base.cert_faults = false;
    hp.base.max_cas = 4;
    hp.base.max_tals = 2;
    hp.base.versions = 2;
    hp.base.modules = 3;
    hp.incomplete_16 = 0;
    hp.rollback_16 = 1;
    hp.fail_module_16 = 3;
    hp.offline_16 = 2;
    hp.max_steps = 4;
    let mut sc = history_run(words, &hp);
    let mut d = D::new(words);
    for _ in 0..17 {
        d.next();
    }
    let roots: Vec<usize> = sc.cas.iter().enumerate().filter(|(_, c)| c.parent.is_none()).map(|(i, _)| i).collect();
    for r in &roots {
        let extra = d.below(3);
        sc.cas[*r].ta_alt = (0..extra).map(|_| d.below(3)).collect();
    }
    for (n, step) in sc.steps.iter_mut().enumerate() {
        for r in &roots {
            for u in 0..(1 + sc.cas[*r].ta_alt.len()) {
                // the very first URI in the first run is mostly good so that something gets stored
                let st = if n == 0 && u == 0 { d.pick(&[0u8, 0, 0, 1, 2, 4]) } else { d.pick(&[0u8, 0, 1, 2, 3, 4, 4, 2]) };
                if st != 0 {
                    step.ta_serve.push((*r, u, st));
                }
            }
            if n > 0 && d.chance(2, 16) {
                step.foreign_tal_key.push(*r);
            }
        }
    }
    sc
}

fn prop(sc: &Scenario, info: &mut CaseInfo) -> Verdict {
    let j = Judge { id: "C10", sound: true, complete: true, points: true, ..Default::default() };
    // extra oracle: the stored trust anchor files must decode (never replaced by undecodable bytes)
    let v = judge(&j, sc, info, |world, obs| {
        let dir = world.cache().join("stored/ta");
        let mut bad = None;
        fn walk(p: &std::path::Path, bad: &mut Option<String>) {
            if let Ok(rd) = std::fs::read_dir(p) {
                for e in rd.flatten() {
                    let p = e.path();
                    if p.is_dir() {
                        walk(&p, bad);
                    } else if let Ok(data) = std::fs::read(&p) {
                        if rpki::repository::cert::Cert::decode(bytes::Bytes::from(data)).is_err() {
                            *bad = Some(p.display().to_string());
                        }
                    }
                }
            }
        }
        walk(&dir, &mut bad);
        bad.map(|p| Verdict::fail("C10/stored-ta-undecodable", format!("step {}: stored trust anchor file {} does not decode", obs.n, p)))
    });
    let failing_download_with_store = sc.steps.iter().skip(1).any(|s| !s.ta_serve.is_empty() || !s.fail_modules.is_empty() || !s.foreign_tal_key.is_empty());
    info.nontrivial = failing_download_with_store;
    for s in &sc.steps {
        for (_, u, st) in &s.ta_serve {
            info.class(format!("uri{}_state{}", u.min(&2), st));
        }
        if !s.foreign_tal_key.is_empty() {
            info.class("tal_rekeyed");
        }
    }
    for c in history_classes(sc) {
        info.class(c);
    }
    v
}

pub fn run(ctx: &Ctx, rep: &mut Report, replay: Option<&serde_json::Value>) {
    rep.rule("E-rpki histories of 2-4 runs, 1-2 TALs with 1-3 rsync URIs each (in up to 3 modules); per URI and run the server offers the matching certificate / a certificate with another key / undecodable bytes / an expired certificate with the right key / nothing; modules fail, runs go offline, TAL files are re-keyed between runs; oracle: reference model of TA selection (URIs in order; a decodable download replaces the stored copy of that URI, otherwise the stored copy is used; first certificate matching the TAL key that validates is used, else the TAL contributes nothing) judged through payload equality and accepted/rejected point counts, plus: every stored trust anchor file decodes; non-trivial = a later run with a non-matching/failed download, unreachable module or re-keyed TAL (stored copy in play); distinct by serialised scenario");
    rep.assume("leg (a) uses rsync URIs only; leg (b) (module c10h) mixes https URIs served by the in-harness HTTPS server with rsync URIs for a single TAL");
    ctx.shrink_iters.store(120, std::sync::atomic::Ordering::Relaxed);
    if let Some(v) = replay {
        let t: Tagged<serde_json::Value> = serde_json::from_value(v.clone()).expect("replay");
        if t.sub == "histories" {
            // mixed https / rsync leg
            crate::c10h::run(ctx, rep, replay);
            return;
        }
        let t: Tagged<Scenario> = serde_json::from_value(v.clone()).expect("replay");
        run_case(ctx, rep, &t.sub, &t.case, prop);
        return;
    }
    run_prop_par(ctx, rep, "history", ctx.tier.pick(240, 6000), 8, || genome(260).prop_map(|w| scenario(&w)), prop);
    // second leg: one TAL with mixed https (in-harness HTTPS server) and rsync URIs
    crate::c10h::run(ctx, rep, None);
}
