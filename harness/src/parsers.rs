//! Independent parsers for routinator's output formats (written from the manual,
//! doc/manual/source/output-formats.rst), a Prometheus text-format 0.0.4 parser and a JSON value
//! type that keeps duplicate object members. All are self-tested by the checks' preambles.

use std::net::IpAddr;
use std::str::FromStr;

use serde::de::{self, Deserialize, Deserializer, MapAccess, SeqAccess, Visitor};

use crate::pay::*;

//------------------------------------------------------------------------------------------
// JSON with ordered, duplicate-preserving objects

#[derive(Clone, Debug, PartialEq)]
pub enum JVal {
    Null,
    Bool(bool),
    Num(f64),
    Str(String),
    Arr(Vec<JVal>),
    Obj(Vec<(String, JVal)>),
}

impl JVal {
    pub fn parse(data: &[u8]) -> Result<JVal, String> {
        serde_json::from_slice::<JVal>(data).map_err(|e| e.to_string())
    }
    pub fn get(&self, key: &str) -> Option<&JVal> {
        match self {
            JVal::Obj(m) => m.iter().find(|(k, _)| k == key).map(|(_, v)| v),
            _ => None,
        }
    }
    pub fn members(&self) -> &[(String, JVal)] {
        match self {
            JVal::Obj(m) => m,
            _ => &[],
        }
    }
    pub fn items(&self) -> &[JVal] {
        match self {
            JVal::Arr(v) => v,
            _ => &[],
        }
    }
    pub fn as_str(&self) -> Option<&str> {
        match self {
            JVal::Str(s) => Some(s),
            _ => None,
        }
    }
    pub fn as_f64(&self) -> Option<f64> {
        match self {
            JVal::Num(n) => Some(*n),
            _ => None,
        }
    }
    pub fn is_obj(&self) -> bool {
        matches!(self, JVal::Obj(_))
    }
    pub fn is_arr(&self) -> bool {
        matches!(self, JVal::Arr(_))
    }
}

impl<'de> Deserialize<'de> for JVal {
    fn deserialize<D: Deserializer<'de>>(d: D) -> Result<Self, D::Error> {
        struct V;
        impl<'de> Visitor<'de> for V {
            type Value = JVal;
            fn expecting(&self, f: &mut std::fmt::Formatter) -> std::fmt::Result {
                f.write_str("any JSON value")
            }
            fn visit_bool<E>(self, v: bool) -> Result<JVal, E> {
                Ok(JVal::Bool(v))
            }
            fn visit_i64<E>(self, v: i64) -> Result<JVal, E> {
                Ok(JVal::Num(v as f64))
            }
            fn visit_u64<E>(self, v: u64) -> Result<JVal, E> {
                Ok(JVal::Num(v as f64))
            }
            fn visit_f64<E>(self, v: f64) -> Result<JVal, E> {
                Ok(JVal::Num(v))
            }
            fn visit_str<E: de::Error>(self, v: &str) -> Result<JVal, E> {
                Ok(JVal::Str(v.to_string()))
            }
            fn visit_string<E>(self, v: String) -> Result<JVal, E> {
                Ok(JVal::Str(v))
            }
            fn visit_unit<E>(self) -> Result<JVal, E> {
                Ok(JVal::Null)
            }
            fn visit_none<E>(self) -> Result<JVal, E> {
                Ok(JVal::Null)
            }
            fn visit_seq<A: SeqAccess<'de>>(self, mut seq: A) -> Result<JVal, A::Error> {
                let mut v = Vec::new();
                while let Some(x) = seq.next_element::<JVal>()? {
                    v.push(x);
                }
                Ok(JVal::Arr(v))
            }
            fn visit_map<A: MapAccess<'de>>(self, mut map: A) -> Result<JVal, A::Error> {
                let mut v = Vec::new();
                while let Some((k, x)) = map.next_entry::<String, JVal>()? {
                    v.push((k, x));
                }
                Ok(JVal::Obj(v))
            }
        }
        d.deserialize_any(V)
    }
}

//------------------------------------------------------------------------------------------
// Small field parsers

pub fn parse_asn(s: &str) -> Result<u32, String> {
    let d = s.strip_prefix("AS").unwrap_or(s);
    if d.is_empty() || !d.bytes().all(|b| b.is_ascii_digit()) {
        return Err(format!("bad ASN {:?}", s));
    }
    d.parse::<u32>().map_err(|_| format!("bad ASN {:?}", s))
}

pub fn parse_asn_strict(s: &str) -> Result<u32, String> {
    if !s.starts_with("AS") {
        return Err(format!("ASN without AS prefix {:?}", s));
    }
    parse_asn(s)
}

pub fn parse_prefix(s: &str) -> Result<(IpAddr, u8), String> {
    let (a, l) = s.split_once('/').ok_or_else(|| format!("bad prefix {:?}", s))?;
    let addr = IpAddr::from_str(a).map_err(|_| format!("bad address {:?}", s))?;
    if l.is_empty() || !l.bytes().all(|b| b.is_ascii_digit()) {
        return Err(format!("bad prefix length {:?}", s));
    }
    let len: u8 = l.parse().map_err(|_| format!("bad prefix length {:?}", s))?;
    let fam = if addr.is_ipv4() { 32 } else { 128 };
    if len > fam {
        return Err(format!("prefix length out of range {:?}", s));
    }
    if mask(addr, len) != addr {
        return Err(format!("host bits set in {:?}", s));
    }
    Ok((addr, len))
}

pub fn parse_u8(s: &str) -> Result<u8, String> {
    if s.is_empty() || !s.bytes().all(|b| b.is_ascii_digit()) {
        return Err(format!("bad number {:?}", s));
    }
    s.parse::<u8>().map_err(|_| format!("bad number {:?}", s))
}

fn origin_of(asn: u32, p: (IpAddr, u8), max: u8) -> Result<MOrigin, String> {
    let fam = if p.0.is_ipv4() { 32 } else { 128 };
    if max < p.1 || max > fam {
        return Err(format!("max length {} out of range for {}/{}", max, p.0, p.1));
    }
    Ok(MOrigin { addr: p.0, len: p.1, max_len: max, asn })
}

pub fn hex_decode(s: &str) -> Result<Vec<u8>, String> {
    if s.len() % 2 != 0 {
        return Err(format!("odd hex {:?}", s));
    }
    (0..s.len() / 2).map(|i| u8::from_str_radix(&s[2 * i..2 * i + 2], 16).map_err(|_| format!("bad hex {:?}", s))).collect()
}

/// Unpadded URL-safe base64 (RFC 4648 §5), as used by SLURM and routinator's JSON outputs.
pub fn b64url_decode(s: &str) -> Result<Vec<u8>, String> {
    fn val(c: u8) -> Option<u32> {
        match c {
            b'A'..=b'Z' => Some((c - b'A') as u32),
            b'a'..=b'z' => Some((c - b'a') as u32 + 26),
            b'0'..=b'9' => Some((c - b'0') as u32 + 52),
            b'-' => Some(62),
            b'_' => Some(63),
            _ => None,
        }
    }
    let bytes = s.as_bytes();
    if bytes.len() % 4 == 1 {
        return Err(format!("bad base64 length {:?}", s));
    }
    let mut out = Vec::new();
    for chunk in bytes.chunks(4) {
        let mut acc = 0u32;
        for (i, c) in chunk.iter().enumerate() {
            acc |= val(*c).ok_or_else(|| format!("bad base64 char in {:?}", s))? << (18 - 6 * i as u32);
        }
        out.push((acc >> 16) as u8);
        if chunk.len() > 2 {
            out.push((acc >> 8) as u8);
        }
        if chunk.len() > 3 {
            out.push(acc as u8);
        }
    }
    Ok(out)
}

fn ski20(v: Vec<u8>) -> Result<[u8; 20], String> {
    <[u8; 20]>::try_from(v.as_slice()).map_err(|_| format!("key identifier of {} bytes", v.len()))
}

//------------------------------------------------------------------------------------------
// Output formats

/// What an output document lists. The string next to an item is its trust-anchor / comment
/// field where the format has one.
#[derive(Clone, Debug, Default, PartialEq)]
pub struct Listed {
    pub origins: Vec<(MOrigin, Option<String>)>,
    pub keys: Vec<(MKey, Option<String>)>,
    pub aspas: Vec<(MAspa, Option<String>)>,
    /// (roas, routerKeys, aspas) member present — json family only.
    pub members: (bool, bool, bool),
    /// For formats that do not print a max length (rpsl) the model max_len is set to len.
    pub without_maxlen: bool,
    /// jsonext: per item, the decoded source entries (type, tal-or-comment).
    pub sources: Vec<Vec<(String, Option<String>)>>,
}

pub const FORMATS: &[&str] = &["csv", "csvcompat", "csvext", "json", "jsonext", "slurm", "slurm2", "openbgpd", "bird1", "bird2", "rpsl", "summary", "none"];

pub fn parse_output(format: &str, data: &[u8]) -> Result<Listed, String> {
    match format {
        "json" => parse_json(data, false),
        "jsonext" => parse_json(data, true),
        "slurm" => parse_slurm(data, 1),
        "slurm2" => parse_slurm(data, 2),
        _ => {
            let text = std::str::from_utf8(data).map_err(|e| format!("output is not UTF-8: {}", e))?;
            match format {
                "csv" => parse_csv(text),
                "csvcompat" => parse_csvcompat(text),
                "csvext" => parse_csvext(text),
                "openbgpd" => parse_openbgpd(text),
                "bird1" => parse_bird(text, "roa"),
                "bird2" => parse_bird(text, "route"),
                "rpsl" => parse_rpsl(text),
                "summary" => {
                    if !text.starts_with("Summary at ") {
                        return Err("summary does not start with 'Summary at '".into());
                    }
                    if !text.contains("\ntotal: \n") {
                        return Err("summary has no total section".into());
                    }
                    Ok(Listed::default())
                }
                "none" => {
                    if !text.is_empty() {
                        return Err(format!("format none produced {} bytes", text.len()));
                    }
                    Ok(Listed::default())
                }
                other => Err(format!("unknown format {}", other)),
            }
        }
    }
}

/// Splits text into lines terminated by LF; the text must end with LF (or be empty).
fn lf_lines(text: &str) -> Result<Vec<&str>, String> {
    if text.is_empty() {
        return Ok(Vec::new());
    }
    if !text.ends_with('\n') {
        return Err("output does not end with a line feed".into());
    }
    Ok(text[..text.len() - 1].split('\n').collect())
}

fn csv_head(line: &str) -> Option<(u32, (IpAddr, u8), u8, &str)> {
    let mut it = line.splitn(4, ',');
    let asn = parse_asn_strict(it.next()?).ok()?;
    let p = parse_prefix(it.next()?).ok()?;
    let m = parse_u8(it.next()?).ok()?;
    let rest = it.next()?;
    Some((asn, p, m, rest))
}

fn parse_csv(text: &str) -> Result<Listed, String> {
    let lines = lf_lines(text)?;
    if lines.first() != Some(&"ASN,IP Prefix,Max Length,Trust Anchor") {
        return Err(format!("csv header line is {:?}", lines.first()));
    }
    let mut res = Listed::default();
    for line in &lines[1..] {
        match csv_head(line) {
            Some((asn, p, m, ta)) => res.origins.push((origin_of(asn, p, m)?, Some(ta.to_string()))),
            None => match res.origins.last_mut() {
                // continuation of a trust-anchor name containing a line feed
                Some((_, Some(ta))) => {
                    ta.push('\n');
                    ta.push_str(line);
                }
                _ => return Err(format!("csv line is not a record: {:?}", line)),
            },
        }
    }
    Ok(res)
}

fn csvcompat_head(line: &str) -> Option<(u32, (IpAddr, u8), u8, &str)> {
    let rest = line.strip_prefix('"')?;
    let (a, rest) = rest.split_once("\",\"")?;
    let (p, rest) = rest.split_once("\",\"")?;
    let (m, rest) = rest.split_once("\",\"")?;
    Some((parse_asn(a).ok()?, parse_prefix(p).ok()?, parse_u8(m).ok()?, rest))
}

fn parse_csvcompat(text: &str) -> Result<Listed, String> {
    let lines = lf_lines(text)?;
    if lines.first() != Some(&"\"ASN\",\"IP Prefix\",\"Max Length\",\"Trust Anchor\"") {
        return Err(format!("csvcompat header line is {:?}", lines.first()));
    }
    let mut res = Listed::default();
    for line in &lines[1..] {
        match csvcompat_head(line) {
            Some((asn, p, m, ta)) => res.origins.push((origin_of(asn, p, m)?, Some(ta.to_string()))),
            None => match res.origins.last_mut() {
                Some((_, Some(ta))) => {
                    ta.push('\n');
                    ta.push_str(line);
                }
                _ => return Err(format!("csvcompat line is not a record: {:?}", line)),
            },
        }
    }
    for (_, ta) in res.origins.iter_mut() {
        let t = ta.take().unwrap();
        match t.strip_suffix('"') {
            Some(inner) => *ta = Some(inner.to_string()),
            None => return Err(format!("csvcompat record does not end with a quote: {:?}", t)),
        }
    }
    Ok(res)
}

fn parse_csvext(text: &str) -> Result<Listed, String> {
    let lines = lf_lines(text)?;
    if lines.first() != Some(&"URI,ASN,IP Prefix,Max Length,Not Before,Not After") {
        return Err(format!("csvext header line is {:?}", lines.first()));
    }
    let mut res = Listed::default();
    for line in &lines[1..] {
        let f: Vec<&str> = line.split(',').collect();
        if f.len() != 6 {
            return Err(format!("csvext record with {} fields: {:?}", f.len(), line));
        }
        if f[0] != "N/A" && !f[0].starts_with("rsync://") {
            return Err(format!("csvext URI field {:?}", f[0]));
        }
        for t in &f[4..6] {
            if *t != "N/A" && !is_csvext_time(t) {
                return Err(format!("csvext time field {:?}", t));
            }
        }
        let o = origin_of(parse_asn_strict(f[1])?, parse_prefix(f[2])?, parse_u8(f[3])?)?;
        res.origins.push((o, Some(f[0].to_string())));
    }
    Ok(res)
}

fn is_csvext_time(s: &str) -> bool {
    // 2017-08-25 13:12:19
    let b = s.as_bytes();
    b.len() == 19
        && b.iter().enumerate().all(|(i, c)| match i {
            4 | 7 => *c == b'-',
            10 => *c == b' ',
            13 | 16 => *c == b':',
            _ => c.is_ascii_digit(),
        })
}

fn parse_openbgpd(text: &str) -> Result<Listed, String> {
    let lines = lf_lines(text)?;
    if lines.first() != Some(&"roa-set {") || lines.last() != Some(&"}") || lines.len() < 2 {
        return Err("openbgpd output is not a roa-set block".into());
    }
    let mut res = Listed::default();
    for line in &lines[1..lines.len() - 1] {
        let t: Vec<&str> = line.split_whitespace().collect();
        let (p, max, asn) = match t.as_slice() {
            [p, "source-as", a] => {
                let p = parse_prefix(p)?;
                (p, p.1, a)
            }
            [p, "maxlen", m, "source-as", a] => {
                let p = parse_prefix(p)?;
                let m = parse_u8(m)?;
                if m <= p.1 {
                    return Err(format!("openbgpd maxlen not greater than prefix length: {:?}", line));
                }
                (p, m, a)
            }
            _ => return Err(format!("openbgpd line {:?}", line)),
        };
        if asn.starts_with("AS") {
            return Err(format!("openbgpd source-as with AS prefix: {:?}", line));
        }
        res.origins.push((origin_of(parse_asn(asn)?, p, max)?, None));
    }
    Ok(res)
}

fn parse_bird(text: &str, keyword: &str) -> Result<Listed, String> {
    let lines = lf_lines(text)?;
    let mut res = Listed::default();
    for line in lines {
        let body = line.strip_suffix(';').ok_or_else(|| format!("bird line without ';': {:?}", line))?;
        let t: Vec<&str> = body.split(' ').collect();
        match t.as_slice() {
            [k, p, "max", m, "as", a] if *k == keyword => {
                if a.starts_with("AS") {
                    return Err(format!("bird ASN with AS prefix: {:?}", line));
                }
                res.origins.push((origin_of(parse_asn(a)?, parse_prefix(p)?, parse_u8(m)?)?, None));
            }
            _ => return Err(format!("bird line {:?}", line)),
        }
    }
    Ok(res)
}

fn parse_rpsl(text: &str) -> Result<Listed, String> {
    let lines = lf_lines(text)?;
    let mut res = Listed { without_maxlen: true, ..Default::default() };
    let mut i = 0;
    while i < lines.len() {
        let line = lines[i];
        let (is6, rest) = if let Some(r) = line.strip_prefix("route: ") {
            (false, r)
        } else if let Some(r) = line.strip_prefix("route6: ") {
            (true, r)
        } else {
            i += 1;
            continue;
        };
        // a record head must follow an empty line and be followed by an origin line
        let p = match parse_prefix(rest) {
            Ok(p) if i > 0 && lines[i - 1].is_empty() => p,
            _ => {
                i += 1;
                continue;
            }
        };
        if p.0.is_ipv6() != is6 {
            return Err(format!("rpsl attribute/family mismatch: {:?}", line));
        }
        let want = ["origin: ", "descr: RPKI attestation", "mnt-by: NA", "created: ", "last-modified: ", "source: ROA-"];
        if i + want.len() >= lines.len() {
            return Err(format!("rpsl record truncated at {:?}", line));
        }
        for (k, w) in want.iter().enumerate() {
            if !lines[i + 1 + k].starts_with(w) {
                return Err(format!("rpsl record line {:?}, expected {:?}", lines[i + 1 + k], w));
            }
        }
        let asn = parse_asn_strict(&lines[i + 1]["origin: ".len()..])?;
        let src = lines[i + 6]["source: ROA-".len()..].to_string();
        res.origins.push((MOrigin { addr: p.0, len: p.1, max_len: p.1, asn }, Some(src)));
        i += 7;
    }
    // the trailing "-RPKI-ROOT" may be on a later line if the name contains a line feed; only
    // strip it where it is on the same line
    for (_, s) in res.origins.iter_mut() {
        if let Some(inner) = s.as_ref().and_then(|x| x.strip_suffix("-RPKI-ROOT")) {
            *s = Some(inner.to_string());
        }
    }
    Ok(res)
}

fn jstr<'a>(v: &'a JVal, key: &str, ctx: &str) -> Result<&'a str, String> {
    v.get(key).and_then(|x| x.as_str()).ok_or_else(|| format!("{}: member {:?} missing or not a string", ctx, key))
}

fn jnum(v: &JVal, key: &str, ctx: &str) -> Result<u64, String> {
    let n = v.get(key).and_then(|x| x.as_f64()).ok_or_else(|| format!("{}: member {:?} missing or not a number", ctx, key))?;
    if n < 0.0 || n.fract() != 0.0 || n > u32::MAX as f64 {
        return Err(format!("{}: member {:?} = {} is not a u32", ctx, key, n));
    }
    Ok(n as u64)
}

fn only_members(v: &JVal, allowed: &[&str], ctx: &str) -> Result<(), String> {
    let mut seen = std::collections::HashSet::new();
    for (k, _) in v.members() {
        if !allowed.contains(&k.as_str()) {
            return Err(format!("{}: unexpected member {:?}", ctx, k));
        }
        if !seen.insert(k.as_str()) {
            return Err(format!("{}: duplicate member {:?}", ctx, k));
        }
    }
    Ok(())
}

fn parse_sources(v: &JVal, ctx: &str) -> Result<Vec<(String, Option<String>)>, String> {
    let arr = v.get("source").filter(|s| s.is_arr()).ok_or_else(|| format!("{}: source missing", ctx))?;
    let mut out = Vec::new();
    for s in arr.items() {
        let ty = jstr(s, "type", ctx)?.to_string();
        match ty.as_str() {
            "roa" | "cer" | "aspa" => {
                only_members(s, &["type", "uri", "tal", "validity", "chainValidity", "stale"], ctx)?;
                let tal = jstr(s, "tal", ctx)?.to_string();
                match s.get("uri") {
                    Some(JVal::Null) | Some(JVal::Str(_)) => {}
                    _ => return Err(format!("{}: source uri missing", ctx)),
                }
                for m in ["validity", "chainValidity"] {
                    let o = s.get(m).ok_or_else(|| format!("{}: {} missing", ctx, m))?;
                    jstr(o, "notBefore", ctx)?;
                    jstr(o, "notAfter", ctx)?;
                }
                jstr(s, "stale", ctx)?;
                out.push((ty, Some(tal)));
            }
            "exception" => {
                only_members(s, &["type", "path", "comment"], ctx)?;
                match s.get("path") {
                    Some(JVal::Null) | Some(JVal::Str(_)) => {}
                    _ => return Err(format!("{}: exception path missing", ctx)),
                }
                let c = match s.get("comment") {
                    None => None,
                    Some(JVal::Str(c)) => Some(c.clone()),
                    Some(_) => return Err(format!("{}: comment not a string", ctx)),
                };
                out.push((ty, c));
            }
            other => return Err(format!("{}: unknown source type {:?}", ctx, other)),
        }
    }
    Ok(out)
}

fn parse_json(data: &[u8], ext: bool) -> Result<Listed, String> {
    let doc = JVal::parse(data).map_err(|e| format!("not valid JSON: {}", e))?;
    if !doc.is_obj() {
        return Err("top level is not an object".into());
    }
    only_members(&doc, &["metadata", "roas", "routerKeys", "aspas"], "top level")?;
    let meta = doc.get("metadata").ok_or("metadata missing")?;
    meta.get("generated").and_then(|g| g.as_f64()).ok_or("metadata.generated missing")?;
    jstr(meta, "generatedTime", "metadata")?;
    let mut res = Listed::default();
    let tail = if ext { "source" } else { "ta" };
    if let Some(roas) = doc.get("roas") {
        if !roas.is_arr() {
            return Err("roas is not an array".into());
        }
        res.members.0 = true;
        for r in roas.items() {
            only_members(r, &["asn", "prefix", "maxLength", tail], "roa")?;
            let o = origin_of(parse_asn_strict(jstr(r, "asn", "roa")?)?, parse_prefix(jstr(r, "prefix", "roa")?)?, jnum(r, "maxLength", "roa")?.min(255) as u8)?;
            if ext {
                res.sources.push(parse_sources(r, "roa")?);
                res.origins.push((o, None));
            } else {
                res.origins.push((o, Some(jstr(r, "ta", "roa")?.to_string())));
            }
        }
    }
    if let Some(keys) = doc.get("routerKeys") {
        if !keys.is_arr() {
            return Err("routerKeys is not an array".into());
        }
        res.members.1 = true;
        for r in keys.items() {
            only_members(r, &["asn", "SKI", "routerPublicKey", tail], "routerKey")?;
            let k = MKey { ski: ski20(hex_decode(jstr(r, "SKI", "routerKey")?)?)?, asn: parse_asn_strict(jstr(r, "asn", "routerKey")?)?, info: b64url_decode(jstr(r, "routerPublicKey", "routerKey")?)? };
            if ext {
                res.sources.push(parse_sources(r, "routerKey")?);
                res.keys.push((k, None));
            } else {
                res.keys.push((k, Some(jstr(r, "ta", "routerKey")?.to_string())));
            }
        }
    }
    if let Some(aspas) = doc.get("aspas") {
        if !aspas.is_arr() {
            return Err("aspas is not an array".into());
        }
        res.members.2 = true;
        for r in aspas.items() {
            only_members(r, &["customer", "providers", tail], "aspa")?;
            let provs = r.get("providers").filter(|p| p.is_arr()).ok_or("aspa providers missing")?;
            let mut pv = Vec::new();
            for p in provs.items() {
                pv.push(parse_asn_strict(p.as_str().ok_or("aspa provider not a string")?)?);
            }
            let a = MAspa { customer: parse_asn_strict(jstr(r, "customer", "aspa")?)?, providers: pv };
            if ext {
                res.sources.push(parse_sources(r, "aspa")?);
                res.aspas.push((a, None));
            } else {
                res.aspas.push((a, Some(jstr(r, "ta", "aspa")?.to_string())));
            }
        }
    }
    Ok(res)
}

fn parse_slurm(data: &[u8], version: u8) -> Result<Listed, String> {
    let doc = JVal::parse(data).map_err(|e| format!("not valid JSON: {}", e))?;
    only_members(&doc, &["slurmVersion", "validationOutputFilters", "locallyAddedAssertions"], "top level")?;
    if doc.get("slurmVersion").and_then(|v| v.as_f64()) != Some(version as f64) {
        return Err(format!("slurmVersion is not {}", version));
    }
    let filters = doc.get("validationOutputFilters").ok_or("validationOutputFilters missing")?;
    let mut fnames = vec!["prefixFilters", "bgpsecFilters"];
    let mut anames = vec!["prefixAssertions", "bgpsecAssertions"];
    if version == 2 {
        fnames.push("aspaFilters");
        anames.push("aspaAssertions");
    }
    only_members(filters, &fnames, "filters")?;
    for n in &fnames {
        match filters.get(n) {
            Some(JVal::Arr(v)) if v.is_empty() => {}
            _ => return Err(format!("{} is not an empty array", n)),
        }
    }
    let ass = doc.get("locallyAddedAssertions").ok_or("locallyAddedAssertions missing")?;
    only_members(ass, &anames, "assertions")?;
    let mut res = Listed { members: (true, true, version == 2), ..Default::default() };
    for r in ass.get("prefixAssertions").filter(|v| v.is_arr()).ok_or("prefixAssertions missing")?.items() {
        only_members(r, &["asn", "prefix", "maxPrefixLength", "comment"], "prefixAssertion")?;
        let p = parse_prefix(jstr(r, "prefix", "prefixAssertion")?)?;
        let max = match r.get("maxPrefixLength") {
            None => p.1,
            Some(_) => jnum(r, "maxPrefixLength", "prefixAssertion")?.min(255) as u8,
        };
        let o = origin_of(jnum(r, "asn", "prefixAssertion")? as u32, p, max)?;
        res.origins.push((o, Some(jstr(r, "comment", "prefixAssertion")?.to_string())));
    }
    for r in ass.get("bgpsecAssertions").filter(|v| v.is_arr()).ok_or("bgpsecAssertions missing")?.items() {
        only_members(r, &["asn", "SKI", "routerPublicKey", "comment"], "bgpsecAssertion")?;
        let k = MKey {
            ski: ski20(b64url_decode(jstr(r, "SKI", "bgpsecAssertion")?)?)?,
            asn: jnum(r, "asn", "bgpsecAssertion")? as u32,
            info: b64url_decode(jstr(r, "routerPublicKey", "bgpsecAssertion")?)?,
        };
        res.keys.push((k, Some(jstr(r, "comment", "bgpsecAssertion")?.to_string())));
    }
    if version == 2 {
        for r in ass.get("aspaAssertions").filter(|v| v.is_arr()).ok_or("aspaAssertions missing")?.items() {
            only_members(r, &["customerAsn", "providerAsns", "comment"], "aspaAssertion")?;
            let provs = r.get("providerAsns").filter(|p| p.is_arr()).ok_or("providerAsns missing")?;
            let mut pv = Vec::new();
            for p in provs.items() {
                let n = p.as_f64().ok_or("provider not a number")?;
                if n < 0.0 || n.fract() != 0.0 || n > u32::MAX as f64 {
                    return Err("provider not a u32".into());
                }
                pv.push(n as u32);
            }
            let a = MAspa { customer: jnum(r, "customerAsn", "aspaAssertion")? as u32, providers: pv };
            res.aspas.push((a, Some(jstr(r, "comment", "aspaAssertion")?.to_string())));
        }
    }
    Ok(res)
}

//------------------------------------------------------------------------------------------
// Prometheus text exposition format 0.0.4

#[derive(Clone, Debug, PartialEq)]
pub struct PromSample {
    pub name: String,
    pub labels: Vec<(String, String)>,
    pub value: f64,
    pub line: usize,
}

#[derive(Clone, Debug, Default)]
pub struct PromDoc {
    pub samples: Vec<PromSample>,
    pub help: Vec<(String, String)>,
    pub types: Vec<(String, String)>,
}

fn is_name_start(c: char, colon: bool) -> bool {
    c.is_ascii_alphabetic() || c == '_' || (colon && c == ':')
}
fn is_name_char(c: char, colon: bool) -> bool {
    c.is_ascii_alphanumeric() || c == '_' || (colon && c == ':')
}

fn take_name<'a>(s: &'a str, colon: bool) -> Option<(&'a str, &'a str)> {
    let mut end = 0;
    for (i, c) in s.char_indices() {
        let ok = if i == 0 { is_name_start(c, colon) } else { is_name_char(c, colon) };
        if !ok {
            break;
        }
        end = i + c.len_utf8();
    }
    if end == 0 {
        None
    } else {
        Some((&s[..end], &s[end..]))
    }
}

fn skip_blank(s: &str) -> &str {
    s.trim_start_matches([' ', '\t'])
}

fn prom_value(s: &str) -> Option<f64> {
    match s {
        "NaN" | "Nan" | "nan" => Some(f64::NAN),
        "+Inf" | "Inf" | "+inf" | "inf" => Some(f64::INFINITY),
        "-Inf" | "-inf" => Some(f64::NEG_INFINITY),
        _ => {
            // Go's strconv.ParseFloat decimal syntax
            let b = s.as_bytes();
            if b.is_empty() {
                return None;
            }
            let ok = b.iter().all(|c| c.is_ascii_digit() || matches!(c, b'+' | b'-' | b'.' | b'e' | b'E'));
            if !ok || !b.iter().any(|c| c.is_ascii_digit()) {
                return None;
            }
            s.parse::<f64>().ok()
        }
    }
}

/// Parses a complete exposition. Any deviation from the text format is an error with the line
/// number (1-based).
pub fn prom_parse(data: &[u8]) -> Result<PromDoc, String> {
    let text = std::str::from_utf8(data).map_err(|e| format!("exposition is not UTF-8: {}", e))?;
    if !text.is_empty() && !text.ends_with('\n') {
        return Err("last line does not end with a line feed".into());
    }
    let mut doc = PromDoc::default();
    let mut sampled: std::collections::HashSet<String> = Default::default();
    let body = if text.is_empty() { "" } else { &text[..text.len() - 1] };
    for (idx, line) in body.split('\n').enumerate() {
        let ln = idx + 1;
        let err = |m: &str| format!("line {}: {}: {:?}", ln, m, crate::core::truncate(line, 300));
        let l = skip_blank(line);
        if l.is_empty() {
            continue;
        }
        if let Some(rest) = l.strip_prefix('#') {
            let rest = skip_blank(rest);
            let (kw, after) = match rest.find([' ', '\t']) {
                Some(i) => (&rest[..i], skip_blank(&rest[i..])),
                None => (rest, ""),
            };
            if kw == "HELP" {
                let (name, after) = take_name(after, true).ok_or_else(|| err("HELP without metric name"))?;
                if !after.is_empty() && !after.starts_with([' ', '\t']) {
                    return Err(err("invalid metric name in HELP"));
                }
                let raw = skip_blank(after);
                let mut out = String::new();
                let mut it = raw.chars();
                while let Some(c) = it.next() {
                    if c == '\\' {
                        match it.next() {
                            Some('\\') => out.push('\\'),
                            Some('n') => out.push('\n'),
                            _ => return Err(err("invalid escape in HELP text")),
                        }
                    } else {
                        out.push(c);
                    }
                }
                if doc.help.iter().any(|(n, _)| n == name) {
                    return Err(err("second HELP line for metric"));
                }
                doc.help.push((name.to_string(), out));
            } else if kw == "TYPE" {
                let (name, after) = take_name(after, true).ok_or_else(|| err("TYPE without metric name"))?;
                let ty = skip_blank(after).trim_end_matches([' ', '\t']);
                if !matches!(ty, "counter" | "gauge" | "histogram" | "summary" | "untyped") {
                    return Err(err("unknown metric type"));
                }
                if doc.types.iter().any(|(n, _)| n == name) {
                    return Err(err("second TYPE line for metric"));
                }
                if sampled.contains(name) {
                    return Err(err("TYPE line after samples of the metric"));
                }
                doc.types.push((name.to_string(), ty.to_string()));
            }
            continue;
        }
        let (name, mut rest) = take_name(l, true).ok_or_else(|| err("invalid metric name"))?;
        let mut labels: Vec<(String, String)> = Vec::new();
        let blank_after_name = rest.starts_with([' ', '\t']);
        rest = skip_blank(rest);
        if !blank_after_name && !rest.starts_with('{') {
            return Err(err("expected blank or '{' after metric name"));
        }
        if let Some(r) = rest.strip_prefix('{') {
            let mut r = skip_blank(r);
            loop {
                if let Some(after) = r.strip_prefix('}') {
                    rest = after;
                    break;
                }
                let (lname, after) = take_name(r, false).ok_or_else(|| err("invalid label name"))?;
                let after = skip_blank(after);
                let after = after.strip_prefix('=').ok_or_else(|| err("expected '=' after label name"))?;
                let after = skip_blank(after);
                let after = after.strip_prefix('"').ok_or_else(|| err("expected '\"' at start of label value"))?;
                let mut val = String::new();
                let mut it = after.char_indices();
                let mut end = None;
                while let Some((i, c)) = it.next() {
                    match c {
                        '"' => {
                            end = Some(i + 1);
                            break;
                        }
                        '\\' => match it.next() {
                            Some((_, '\\')) => val.push('\\'),
                            Some((_, '"')) => val.push('"'),
                            Some((_, 'n')) => val.push('\n'),
                            _ => return Err(err("invalid escape sequence in label value")),
                        },
                        c => val.push(c),
                    }
                }
                let end = end.ok_or_else(|| err("unterminated label value"))?;
                if labels.iter().any(|(n, _)| n == lname) {
                    return Err(err("duplicate label name"));
                }
                labels.push((lname.to_string(), val));
                r = skip_blank(&after[end..]);
                if let Some(after) = r.strip_prefix(',') {
                    r = skip_blank(after);
                } else if !r.starts_with('}') {
                    return Err(err("expected ',' or '}' after label value"));
                }
            }
        }
        let rest = skip_blank(rest);
        let mut toks = rest.split([' ', '\t']).filter(|t| !t.is_empty());
        let v = toks.next().ok_or_else(|| err("missing sample value"))?;
        let value = prom_value(v).ok_or_else(|| err("invalid sample value"))?;
        if let Some(ts) = toks.next() {
            ts.parse::<i64>().map_err(|_| err("invalid timestamp"))?;
        }
        if toks.next().is_some() {
            return Err(err("trailing garbage after sample"));
        }
        sampled.insert(name.to_string());
        doc.samples.push(PromSample { name: name.to_string(), labels, value, line: ln });
    }
    Ok(doc)
}

/// Self-test of the Prometheus parser: conforming samples accepted (with the right decoding),
/// malformed ones rejected.
pub fn prom_selftest() -> Result<(), String> {
    let good = "# HELP http_requests_total The total number of HTTP requests.\n\
# TYPE http_requests_total counter\n\
http_requests_total{method=\"post\",code=\"200\"} 1027 1395066363000\n\
http_requests_total{method=\"post\",code=\"400\"}    3 1395066363000\n\
\n\
# Escaping in label values:\n\
msdos_file_access_time_seconds{path=\"C:\\\\DIR\\\\FILE.TXT\",error=\"Cannot find file:\\n\\\"FILE.TXT\\\"\"} 1.458255915e9\n\
# Minimalistic line:\n\
metric_without_timestamp_and_labels 12.47\n\
# HELP x_seconds A summary with a backslash \\\\ and a line feed \\n in its help.\n\
# TYPE x_seconds summary\n\
x_seconds{quantile=\"0.01\"} 3102\n\
x_seconds_sum 1.7560473e+07\n\
something_weird{problem=\"division by zero\"} +Inf -3982045\n\
nan_metric NaN\n\
spaced{ a=\"1\", b=\"tab\there\" , } 5\n";
    let doc = prom_parse(good.as_bytes()).map_err(|e| format!("conforming sample rejected: {}", e))?;
    if doc.samples.len() != 9 {
        return Err(format!("conforming sample: {} samples parsed, expected 9", doc.samples.len()));
    }
    let ms = &doc.samples[2];
    if ms.labels != vec![("path".to_string(), "C:\\DIR\\FILE.TXT".to_string()), ("error".to_string(), "Cannot find file:\n\"FILE.TXT\"".to_string())] {
        return Err(format!("escape decoding wrong: {:?}", ms.labels));
    }
    if doc.samples[8].labels != vec![("a".to_string(), "1".to_string()), ("b".to_string(), "tab\there".to_string())] {
        return Err(format!("blank handling wrong: {:?}", doc.samples[8].labels));
    }
    if !doc.samples[7].value.is_nan() || doc.samples[6].value != f64::INFINITY {
        return Err("special values wrong".into());
    }
    if doc.help.iter().find(|(n, _)| n == "x_seconds").map(|(_, h)| h.as_str()) != Some("A summary with a backslash \\ and a line feed \n in its help.") {
        return Err("HELP decoding wrong".into());
    }
    let bad: &[(&str, &str)] = &[
        ("m{l=\"a\"b\"} 1\n", "unescaped quote in label value"),
        ("m{l=\"a\\b\"} 1\n", "invalid escape in label value"),
        ("m{l=\"a\nb\"} 1\n", "raw line feed in label value"),
        ("m{l=\"a\\\"} 1\n", "trailing backslash swallows the quote"),
        ("m{l=\"a\"}\n", "missing value"),
        ("m{l=\"a\"} one\n", "non-numeric value"),
        ("# TYPE m gauge\n# TYPE m gauge\nm 1\n", "duplicate TYPE"),
        ("m 1\n# TYPE m gauge\n", "TYPE after sample"),
        ("m{1l=\"a\"} 1\n", "bad label name"),
        ("m{l=\"a\" l2=\"b\"} 1\n", "missing comma"),
        ("m 1", "no final line feed"),
        ("m{l=\"a\",l=\"b\"} 1\n", "duplicate label"),
    ];
    for (text, why) in bad {
        if prom_parse(text.as_bytes()).is_ok() {
            return Err(format!("malformed sample accepted ({}): {:?}", why, text));
        }
    }
    Ok(())
}
