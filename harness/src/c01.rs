//! C01 Only validated payload reaches routers (soundness direction of the E-rpki single-run oracle).

use crate::core::*;
use crate::erpki::*;
use crate::escen::*;

/// Runs all steps of a scenario and compares served and expected payload after every step.
pub fn judge_scenario(id: &'static str, sc: &Scenario, info: &mut CaseInfo, sound: bool, complete: bool) -> Verdict {
    let j = crate::erun::Judge { id, sound, complete, ..Default::default() };
    crate::erun::judge(&j, sc, info, |_, _| None)
}

pub fn run(ctx: &Ctx, rep: &mut Report, replay: Option<&serde_json::Value>) {
    rep.rule("E-rpki single-run scenarios from an empty cache: 1-2 TALs, up to 7 CAs over 3 rsync modules, 0-5 objects per CA (ROA v4/v6, ASPA, router cert, GBR), faults from a closed catalogue on CA certificates, manifests/CRLs and objects, config knobs varied; every object owns a unique slot; oracle = reference model (DESIGN Appendix A), soundness direction: every served item must belong to a valid object under an accepted chain; non-trivial = >=1 fault and >=1 valid payload item elsewhere; distinct by serialised scenario");
    rep.assume("the reference model's fault catalogue has a single consequence per fault (Appendix A); objects are issued with rpki's own builders over a committed RSA key pool");
    let profile = Profile::default();
    ctx.shrink_iters.store(150, std::sync::atomic::Ordering::Relaxed);
    if let Some(v) = replay {
        let t: Tagged<Scenario> = serde_json::from_value(v.clone()).expect("replay");
        run_case(ctx, rep, &t.sub, &t.case, |sc, i| judge_scenario("C01", sc, i, true, false));
        return;
    }
    let p = profile.clone();
    run_prop_par(ctx, rep, "single", ctx.tier.pick(320, 8000), 16, || genome(160).prop_map({
        let p = p.clone();
        move |w| single_run(&w, &p)
    }), |sc, i| judge_scenario("C01", sc, i, true, false));
}

use proptest::strategy::Strategy;
