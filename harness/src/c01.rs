//! C01 Only validated payload reaches routers (soundness direction of the E-rpki single-run oracle).

use crate::core::*;
use crate::erpki::*;
use crate::escen::*;

/// Runs all steps of a scenario and compares served and expected payload after every step.
pub fn judge_scenario(id: &'static str, sc: &Scenario, info: &mut CaseInfo, sound: bool, complete: bool) -> Verdict {
    let j = crate::erun::Judge { id, sound, complete, ..Default::default() };
    crate::erun::judge(&j, sc, info, |_, _| None)
}

fn tal_swap_profile() -> HistProfile {
    let mut hp = HistProfile::default();
    hp.base.fault_16 = 1;
    hp.base.max_cas = 4;
    hp.base.versions = 2;
    hp.incomplete_16 = 1;
    hp.rollback_16 = 1;
    hp.fail_module_16 = 3;
    hp.offline_16 = 2;
    hp.max_steps = 3;
    hp
}

fn tal_swap_history(words: &[u16], hp: &HistProfile) -> Scenario {
    let mut sc = history_run(words, hp);
    let mut d = D::new(words);
    for _ in 0..13 {
        d.next();
    }
    let roots: Vec<usize> = sc.cas.iter().enumerate().filter(|(_, c)| c.parent.is_none()).map(|(i, _)| i).collect();
    for (n, step) in sc.steps.iter_mut().enumerate() {
        for r in &roots {
            // mostly from the second run on, so a certificate for the old key is already stored
            let chance = if n == 0 { 1 } else { 6 };
            if d.chance(chance, 16) {
                step.foreign_tal_key.push(*r);
            }
        }
    }
    sc
}

pub fn run(ctx: &Ctx, rep: &mut Report, replay: Option<&serde_json::Value>) {
    rep.rule("(a) E-rpki histories of 2-3 runs in which a TAL file is replaced by one carrying a different key while the repository, the local rsync copy or only the store still hold the trust anchor certificate for the old key (with unreachable modules and offline runs): nothing of that TAL may be served; (a2) histories of 2-4 runs with abandoned (incomplete) updates over stored versions, as in C03; (b) E-rpki single-run scenarios from an empty cache: 1-2 TALs, up to 7 CAs over 3 rsync modules, 0-5 objects per CA (ROA v4/v6, ASPA, router cert, GBR), faults from a closed catalogue on CA certificates, manifests/CRLs and objects, config knobs varied; every object owns a unique slot; oracle = reference model (DESIGN Appendix A), soundness direction: every served item must belong to a valid object under an accepted chain; non-trivial = >=1 fault and >=1 valid payload item elsewhere; distinct by serialised scenario");
    rep.assume("the reference model's fault catalogue has a single consequence per fault (Appendix A); objects are issued with rpki's own builders over a committed RSA key pool");
    let profile = Profile::default();
    ctx.shrink_iters.store(150, std::sync::atomic::Ordering::Relaxed);
    if let Some(v) = replay {
        let t: Tagged<Scenario> = serde_json::from_value(v.clone()).expect("replay");
        if t.sub == "rrdp" {
            run_case(ctx, rep, &t.sub, &t.case, |sc, i| rrdp_single_prop("C01/rrdp", sc, i, true, false));
            return;
        }
        run_case(ctx, rep, &t.sub, &t.case, |sc, i| judge_scenario("C01", sc, i, true, false));
        return;
    }
    // histories over a persistent cache in which a TAL is re-keyed between runs while the repository
    // (or only the store) still holds the certificate for the old key
    let hp = tal_swap_profile();
    run_prop_par(ctx, rep, "talswap", ctx.tier.pick(120, 3000), 8, || genome(260).prop_map({
        let hp = hp.clone();
        move |w| tal_swap_history(&w, &hp)
    }), |sc, i| {
        let v = judge_scenario("C01", sc, i, true, false);
        i.nontrivial = sc.steps.iter().skip(1).any(|s| !s.foreign_tal_key.is_empty());
        if i.nontrivial {
            i.class("tal_rekeyed_after_store");
        }
        v
    });
    // histories over a persistent cache with abandoned (incomplete) updates, stale and rolled-back versions:
    // nothing of a version that was not accepted may reach the data set (C03-C05 own the details)
    let hp3 = crate::c03::profile();
    run_prop_par(ctx, rep, "history", ctx.tier.pick(64, 1500), 8, || genome(260).prop_map({
        let hp3 = hp3.clone();
        move |w| history_run(&w, &hp3)
    }), |sc, i| {
        i.class("multi_run_history");
        judge_scenario("C01", sc, i, true, false)
    });
    let p = profile.clone();
    run_prop_par(ctx, rep, "single", ctx.tier.pick(320, 8000), 16, || genome(160).prop_map({
        let p = p.clone();
        move |w| single_run(&w, &p)
    }), |sc, i| judge_scenario("C01", sc, i, true, false));
    run_rrdp_single(ctx, rep, "C01/rrdp", true, false);
}

/// Sub-check "rrdp" of C01 / C02: the single-run scenarios with about half of the CAs published through
/// RRDP repositories (some of which fail), so that the RRDP collector, the RRDP-keyed store and the
/// RRDP-to-rsync fallback are on the path from repository to payload.
pub fn run_rrdp_single(ctx: &Ctx, rep: &mut Report, id: &'static str, sound: bool, complete: bool) {
    rep.rule("(rrdp) the single-run scenarios with every CA published through one of 2 RRDP repositories (in-harness HTTPS server behind routinator's real HTTP client) with chance 1/2, each repository's notification failing (HTTP 500) with chance 3/16, each rsync module unreachable with chance 2/16, rrdp-fallback in {stale, never, new}; model: repository updated => the CA's point is collected from the RRDP copy, update failed without local copy => rsync unless policy never, else stored data only; non-trivial = a CA published through RRDP was attempted and the scenario has a fault or a failing repository, and payload is expected");
    let p = Profile { rrdp_16: 8, ..Profile::default() };
    run_prop_par(ctx, rep, "rrdp", ctx.tier.pick(120, 3000), 8, || (genome(160), rrdp_genome()).prop_map({
        let p = p.clone();
        move |(w, r)| single_run_rrdp(&w, &r, &p, 3)
    }), |sc, i| rrdp_single_prop(id, sc, i, sound, complete));
}

pub fn rrdp_single_prop(id: &'static str, sc: &Scenario, info: &mut CaseInfo, sound: bool, complete: bool) -> Verdict {
    let j = crate::erun::Judge { id, sound, complete, ..Default::default() };
    let mut payload = false;
    let (v, seen) = crate::erun::judge_rrdp(&j, sc, info, |_, obs| {
        payload |= !obs.exp.payload.is_empty();
        None
    });
    info.nontrivial = seen.attempted && payload && (count_faults(sc) > 0 || sc.steps.iter().any(|s| !s.fail_rrdp.is_empty()));
    v
}

use proptest::strategy::Strategy;
