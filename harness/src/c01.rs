//! C01 — not built yet.

use crate::core::*;

pub const IMPLEMENTED: bool = false;

pub fn run(_ctx: &Ctx, _rep: &mut Report, _replay: Option<&serde_json::Value>) {
    eprintln!("C01: check not implemented");
    std::process::exit(2);
}
