//! C36 RTR client metrics stay consistent under concurrent connections.
//!
//! Real threads execute exactly what `RtrStream::new` / `Drop for RtrStream` do with the metrics
//! (`get_client(addr)`, `update(inc_current_connections)`, byte counting, `update(dec_…)`) under a
//! harness-owned schedule over the yield points inside `RtrPerAddrMetrics::get` and the try-lock of
//! its mutex (see `sched.rs`). Sub-checks: `dfs` (all schedules of small programs), `sampled`
//! (generated programs + generated schedules), `stress` (uncontrolled 16-thread rounds, best effort),
//! `e2e` (real `rtr_listener`, real TCP clients from 127.0.0.1–127.0.0.4).

use std::collections::{BTreeMap, BTreeSet};
use std::net::IpAddr;
use std::sync::{Arc, Mutex};

use proptest::prelude::*;
use routinator::metrics::{RtrClientMetrics, RtrServerMetrics};
use serde::{Deserialize, Serialize};

use crate::core::*;
use crate::sched::{self, BytesChooser, Chooser, Dfs, Event, Job};

/// Address pool, deliberately not in sorted order and mixing families.
pub const ADDRS: [&str; 4] = ["10.0.0.2", "10.0.0.1", "::1", "10.0.0.3"];

fn addr(i: u8) -> IpAddr {
    ADDRS[(i as usize) % ADDRS.len()].parse().unwrap()
}

#[derive(Serialize, Deserialize, Clone, Debug, PartialEq, Eq, Hash)]
pub enum Op {
    /// A client connects from address index.
    Open(u8),
    /// The oldest still open connection of this thread closes (no-op if none).
    Close,
}

#[derive(Serialize, Deserialize, Clone, Debug)]
pub struct Case {
    /// Addresses that connected (and stayed open) before the concurrent phase.
    pub pre: Vec<u8>,
    pub threads: Vec<Vec<Op>>,
    /// Schedule: choice bytes for `sched::BytesChooser`.
    pub choices: Vec<u8>,
}

struct World {
    metrics: Arc<RtrServerMetrics>,
    open: Arc<Mutex<Vec<(u8, RtrClientMetrics)>>>,
}

/// Exactly the metric operations of `RtrStream::new` (src/rtr.rs:209-210) plus one byte count.
fn connect(metrics: &RtrServerMetrics, a: u8) -> RtrClientMetrics {
    let h = metrics.get_client(addr(a));
    h.update(|m| m.inc_current_connections());
    h.update(|m| m.inc_bytes_read(1));
    h
}

/// `Drop for RtrStream`.
fn disconnect(h: RtrClientMetrics) {
    h.update(|m| m.dec_current_connections());
}

fn jobs_for(case: &Case, w: &World) -> Vec<Job> {
    case.threads
        .iter()
        .map(|ops| {
            let ops = ops.clone();
            let metrics = w.metrics.clone();
            let open = w.open.clone();
            Box::new(move || {
                let mut mine: std::collections::VecDeque<(u8, RtrClientMetrics)> = Default::default();
                for op in ops {
                    match op {
                        Op::Open(a) => {
                            sched::note(format!("open {}", a));
                            let h = connect(&metrics, a);
                            sched::note(format!("opened {}", a));
                            mine.push_back((a, h));
                        }
                        Op::Close => {
                            if let Some((a, h)) = mine.pop_front() {
                                disconnect(h);
                                sched::note(format!("closed {}", a));
                            }
                        }
                    }
                }
                open.lock().unwrap().extend(mine);
            }) as Job
        })
        .collect()
}

/// Invariant checked by the scheduler whenever all participants are parked.
fn step_invariant(metrics: &RtrServerMetrics, seen: &mut BTreeSet<IpAddr>, allowed: &BTreeSet<IpAddr>) -> Result<(), String> {
    let Some(list) = metrics.clients() else { return Err("unknown|clients() is None although per-client metrics are enabled".into()) };
    for w in list.windows(2) {
        if w[0].0 >= w[1].0 {
            return Err(format!("unsorted-or-duplicate|client list not strictly sorted: {:?}", list.iter().map(|x| x.0).collect::<Vec<_>>()));
        }
    }
    let now: BTreeSet<IpAddr> = list.iter().map(|x| x.0).collect();
    if let Some(lost) = seen.iter().find(|a| !now.contains(*a)) {
        return Err(format!("address-lost|address {} was listed earlier but is gone: {:?}", lost, now));
    }
    if let Some(x) = now.iter().find(|a| !allowed.contains(*a)) {
        return Err(format!("unknown-address|address {} listed but never connected", x));
    }
    *seen = now;
    Ok(())
}

/// Is the case non-trivial: two first-connections from the same new address interleaved, i.e. two
/// opens of one address by different threads that both left the fast path and overlap in time.
fn interleaved_first_connections(trace: &[Event]) -> bool {
    // (tid, addr, start idx, end idx, missed fast path)
    let mut spans: Vec<(usize, String, usize, usize, bool)> = Vec::new();
    let mut cur: BTreeMap<usize, (String, usize, bool)> = BTreeMap::new();
    for (i, ev) in trace.iter().enumerate() {
        match ev {
            Event::Note { tid, text } => {
                if let Some(a) = text.strip_prefix("open ") {
                    cur.insert(*tid, (a.to_string(), i, false));
                } else if text.starts_with("opened ") {
                    if let Some((a, s, m)) = cur.remove(tid) {
                        spans.push((*tid, a, s, i, m));
                    }
                }
            }
            Event::Step { tid, label } => {
                if *label == "rtr_metrics.before_lock" {
                    if let Some(c) = cur.get_mut(tid) {
                        c.2 = true;
                    }
                }
            }
            Event::Done { .. } => {}
        }
    }
    for (i, a) in spans.iter().enumerate() {
        for b in spans.iter().skip(i + 1) {
            if a.0 != b.0 && a.1 == b.1 && a.4 && b.4 && a.2 < b.3 && b.2 < a.3 {
                return true;
            }
        }
    }
    false
}

fn fail_from(msg: String) -> Verdict {
    let (k, m) = msg.split_once('|').map(|(a, b)| (a.to_string(), b.to_string())).unwrap_or(("invariant".into(), msg.clone()));
    Verdict::fail(format!("C36/{}", k), m)
}

/// Final-state oracle. `open` = connections still open.
fn final_oracle(metrics: &RtrServerMetrics, opened: &BTreeMap<IpAddr, u64>, open: Vec<(u8, RtrClientMetrics)>) -> Result<(), String> {
    let list = metrics.clients().ok_or("unknown|clients() is None")?;
    let listed: Vec<IpAddr> = list.iter().map(|x| x.0).collect();
    let expected: Vec<IpAddr> = opened.keys().copied().collect();
    if listed != expected {
        let key = if listed.len() != listed.iter().collect::<BTreeSet<_>>().len() || listed.windows(2).any(|w| w[0] >= w[1]) {
            "unsorted-or-duplicate"
        } else if expected.iter().any(|a| !listed.contains(a)) {
            "address-lost"
        } else {
            "unknown-address"
        };
        return Err(format!("{}|final client list {:?}, expected exactly {:?}", key, listed, expected));
    }
    let mut still: BTreeMap<IpAddr, usize> = BTreeMap::new();
    for (a, _) in &open {
        *still.entry(addr(*a)).or_default() += 1;
    }
    for (a, data) in list.iter() {
        let n = opened[a];
        if data.bytes_read() != n {
            return Err(format!("handle-not-aliased|{} connections from {} counted a byte each through their handles but the listed entry shows {}", n, a, data.bytes_read()));
        }
        let s = still.get(a).copied().unwrap_or(0);
        if data.current_connections() != s {
            return Err(format!("open-count-mismatch|{}: {} connections open but entry shows {}", a, s, data.current_connections()));
        }
    }
    let total: u64 = opened.values().sum();
    let g = metrics.global();
    if g.bytes_read() != total || g.current_connections() != open.len() {
        return Err(format!("global-mismatch|global shows bytes_read={} current={} expected {} / {}", g.bytes_read(), g.current_connections(), total, open.len()));
    }
    // every connection closes
    for (_, h) in open {
        disconnect(h);
    }
    let list = metrics.clients().ok_or("unknown|clients() is None")?;
    if let Some((a, d)) = list.iter().find(|x| x.1.current_connections() != 0) {
        return Err(format!("nonzero-after-close|{} shows {} open connections after all closed", a, d.current_connections()));
    }
    if metrics.global().current_connections() != 0 {
        return Err(format!("nonzero-after-close|global shows {} open connections after all closed", metrics.global().current_connections()));
    }
    Ok(())
}

fn opened_counts(case: &Case) -> BTreeMap<IpAddr, u64> {
    let mut m: BTreeMap<IpAddr, u64> = BTreeMap::new();
    for a in &case.pre {
        *m.entry(addr(*a)).or_default() += 1;
    }
    for t in &case.threads {
        for op in t {
            if let Op::Open(a) = op {
                *m.entry(addr(*a)).or_default() += 1;
            }
        }
    }
    m
}

/// Runs one program under one schedule.
fn execute(case: &Case, chooser: &mut dyn Chooser, info: &mut CaseInfo) -> Verdict {
    let w = World { metrics: Arc::new(RtrServerMetrics::new(true)), open: Default::default() };
    for a in &case.pre {
        let h = connect(&w.metrics, *a);
        w.open.lock().unwrap().push((*a, h));
    }
    let opened = opened_counts(case);
    let allowed: BTreeSet<IpAddr> = opened.keys().copied().collect();
    let mut seen = BTreeSet::new();
    let m2 = w.metrics.clone();
    let out = sched::run(jobs_for(case, &w), chooser, &mut |_trace| step_invariant(&m2, &mut seen, &allowed));
    let nt = interleaved_first_connections(&out.trace);
    info.nt(nt);
    if nt {
        info.class("interleaved_first_connections");
    }
    let new_addrs = allowed.len() - case.pre.iter().map(|a| addr(*a)).collect::<BTreeSet<_>>().len();
    info.class(format!("threads={} new_addrs={}", case.threads.len(), new_addrs.min(3)));
    if out.trace.iter().any(|e| matches!(e, Event::Step { label: "sync.mutex.lock", .. })) {
        info.class("slow_path");
    }
    if let Some(e) = out.observer_error {
        return fail_from(e);
    }
    if let Some((tid, msg)) = out.panics.first() {
        return Verdict::fail("C36/thread-panic", format!("thread {} panicked: {}", tid, msg));
    }
    if out.deadlock {
        return Verdict::fail("C36/deadlock", format!("all threads blocked on locks; trace tail {:?}", out.trace.iter().rev().take(8).collect::<Vec<_>>()));
    }
    if out.diverged {
        return Verdict::Dropped("schedule_step_bound".into());
    }
    let open = std::mem::take(&mut *w.open.lock().unwrap());
    match final_oracle(&w.metrics, &opened, open) {
        Ok(()) => Verdict::Pass,
        Err(e) => fail_from(e),
    }
}

fn prop_sampled(case: &Case, info: &mut CaseInfo) -> Verdict {
    let mut ch = BytesChooser::new(&case.choices);
    execute(case, &mut ch, info)
}

fn case_strategy() -> impl Strategy<Value = Case> {
    // number of distinct addresses in play 1..=3, threads 2..=4, ops 1..=4 per thread
    (1u8..=3, 2usize..=4).prop_flat_map(|(naddr, nthreads)| {
        let op = prop_oneof![3 => (0..naddr).prop_map(Op::Open), 1 => Just(Op::Close)];
        (
            prop::collection::vec(0..naddr.max(1) + 1, 0..=2),
            prop::collection::vec(prop::collection::vec(op, 1..=4), nthreads..=nthreads),
            prop::collection::vec(any::<u8>(), 0..48),
        )
            .prop_map(|(pre, threads, choices)| Case { pre, threads, choices })
    })
}

/// Programs whose schedule trees are enumerated completely.
fn dfs_programs(tier: Tier) -> Vec<Case> {
    let mut v = Vec::new();
    let c = |pre: &[u8], threads: &[&[Op]]| Case { pre: pre.to_vec(), threads: threads.iter().map(|t| t.to_vec()).collect(), choices: vec![] };
    use Op::*;
    for pre in [&[][..], &[0][..], &[2][..], &[0, 2][..]] {
        // two first connections from the same new address
        v.push(c(pre, &[&[Open(1)], &[Open(1)]]));
        // different new addresses (insert positions differ)
        v.push(c(pre, &[&[Open(1)], &[Open(3)]]));
        // with closes and a second connection
        v.push(c(pre, &[&[Open(1), Close], &[Open(1), Close]]));
        if tier == Tier::Thorough || pre.len() != 1 {
            v.push(c(pre, &[&[Open(1), Close, Open(3)], &[Open(3), Open(1)]]));
        }
        // existing + new
        v.push(c(pre, &[&[Open(0)], &[Open(1)]]));
    }
    // three and four threads: the trees are too large for the quick tier (covered there by `sampled`)
    if tier == Tier::Thorough {
        v.push(c(&[], &[&[Open(1)], &[Open(1)], &[Open(1)]]));
        v.push(c(&[0], &[&[Open(1)], &[Open(3)], &[Open(1)]]));
        v.push(c(&[], &[&[Open(1), Close], &[Open(1), Close], &[Open(3)]]));
        v.push(c(&[2], &[&[Open(1)], &[Open(3)], &[Open(0)], &[Open(1)]]));
    }
    v
}

fn run_dfs(ctx: &Ctx, rep: &mut Report) {
    let cap = ctx.tier.pick(3_000usize, 100_000);
    let mut total = 0usize;
    let mut all_exhausted = true;
    let mut per_program = Vec::new();
    for prog in dfs_programs(ctx.tier) {
        let mut dfs = Dfs::new();
        let mut n = 0usize;
        let mut exhausted = false;
        loop {
            let mut info = CaseInfo::default();
            let verdict = execute(&prog, &mut dfs, &mut info);
            n += 1;
            let case = Case { choices: dfs.choices(), ..prog.clone() };
            let tagged = Tagged { sub: "sampled".to_string(), case };
            rep.record(ctx, &tagged, &info, &verdict);
            if rep.violated() {
                return;
            }
            if !dfs.advance() {
                exhausted = true;
                break;
            }
            if n >= cap {
                break;
            }
        }
        total += n;
        all_exhausted &= exhausted;
        per_program.push(serde_json::json!({"pre": prog.pre, "threads": prog.threads, "schedules": n, "exhausted": exhausted}));
    }
    rep.extra.insert("dfs_schedules".into(), serde_json::json!(total));
    rep.extra.insert("dfs_programs".into(), serde_json::json!(per_program));
    rep.exhaustive = Some(all_exhausted);
}

/// Uncontrolled stress: 16 threads race on a fresh registry per round (best effort, §0.7).
fn run_stress(ctx: &Ctx, rep: &mut Report) {
    let rounds = ctx.tier.pick(300usize, 5_000);
    let nthreads = 16usize;
    let mut bad: Option<(usize, String)> = None;
    for round in 0..rounds {
        let metrics = Arc::new(RtrServerMetrics::new(true));
        let barrier = Arc::new(std::sync::Barrier::new(nthreads));
        let open: Arc<Mutex<Vec<(u8, RtrClientMetrics)>>> = Default::default();
        let hs: Vec<_> = (0..nthreads)
            .map(|t| {
                let (m, b, o) = (metrics.clone(), barrier.clone(), open.clone());
                std::thread::spawn(move || {
                    b.wait();
                    let mut mine = Vec::new();
                    for k in 0..4u8 {
                        let a = ((t as u8) + k + (round as u8)) % 4;
                        mine.push((a, connect(&m, a)));
                    }
                    // close half
                    let keep = mine.split_off(2);
                    for (_, h) in mine {
                        disconnect(h);
                    }
                    o.lock().unwrap().extend(keep);
                })
            })
            .collect();
        for h in hs {
            let _ = h.join();
        }
        let mut opened: BTreeMap<IpAddr, u64> = BTreeMap::new();
        for t in 0..nthreads {
            for k in 0..4u8 {
                *opened.entry(addr(((t as u8) + k + (round as u8)) % 4)).or_default() += 1;
            }
        }
        let open = std::mem::take(&mut *open.lock().unwrap());
        if let Err(e) = final_oracle(&metrics, &opened, open) {
            bad = Some((round, e));
            break;
        }
    }
    rep.extra.insert("stress_rounds".into(), serde_json::json!(rounds));
    if let Some((round, e)) = bad {
        let (k, m) = e.split_once('|').map(|(a, b)| (a.to_string(), b.to_string())).unwrap_or(("invariant".into(), e.clone()));
        let case = Tagged { sub: "stress".to_string(), case: serde_json::json!({"round": round}) };
        rep.failure(ctx, &case, &format!("C36/stress/{}", k), &m);
    }
}

pub fn run(ctx: &Ctx, rep: &mut Report, replay: Option<&serde_json::Value>) {
    rep.rule("threads performing the metric operations of RtrStream::new/Drop (get_client, inc, byte count, dec) for addresses from a pool of 4 under harness-owned schedules over rtr_metrics.{before_lock,locked,before_store} and the registry mutex's try-lock: (dfs) every schedule of 18 two-thread programs (same/different/new/existing addresses, with closes and second connections; thorough adds 3-4 thread programs, capped at 100 000 schedules each), (sampled) generated programs of 2-4 threads x 1-4 ops with generated choice strings, (stress) uncontrolled 16-thread rounds, (e2e) real rtr_listener with TCP clients from 127.0.0.1-127.0.0.4, in 40 % of the cases part of the clients go to a second server whose rtr-tcp-keepalive the kernel rejects (every connection setup fails after accept; its counts must be zero afterwards); invariant checked at every scheduling step (list strictly sorted, no address disappears) and at the end (exactly the connected addresses, per-entry byte counts equal the number of connections through any handle, open counts exact, zero after all closed); non-trivial = two first connections from the same new address by different threads both leave the fast path and overlap; distinct by program+schedule");
    rep.assume("the yield points cover every lock acquisition and the load/lock/re-load/store steps of RtrPerAddrMetrics::get; interleavings inside regions without yield points (atomic counter updates) are only exercised by the uncontrolled stress rounds");
    rep.assume("one controlled thread runs at a time, i.e. sequentially consistent executions only (no weak-memory effects)");
    if let Some(v) = replay {
        let t: Tagged<serde_json::Value> = serde_json::from_value(v.clone()).expect("replay");
        match t.sub.as_str() {
            "sampled" => run_case(ctx, rep, "sampled", &serde_json::from_value::<Case>(t.case).expect("case"), prop_sampled),
            "e2e" => run_case(ctx, rep, "e2e", &serde_json::from_value::<E2eCase>(t.case).expect("case"), prop_e2e),
            "stress" => run_stress(ctx, rep),
            other => panic!("unknown sub {}", other),
        }
        return;
    }
    run_dfs(ctx, rep);
    if rep.violated() {
        return;
    }
    run_prop(ctx, rep, "sampled", ctx.tier.pick(4_000, 120_000), case_strategy(), prop_sampled);
    if rep.violated() {
        return;
    }
    run_stress(ctx, rep);
    if rep.violated() {
        return;
    }
    // a failing e2e case waits 10 s for the counts to drain: keep shrinking short
    ctx.shrink_iters.store(10, std::sync::atomic::Ordering::Relaxed);
    run_prop(ctx, rep, "e2e", ctx.tier.pick(60, 1_000), e2e_strategy(), prop_e2e);
}

//------------ end-to-end variant ------------------------------------------------------------------

#[derive(Serialize, Deserialize, Clone, Debug)]
pub struct E2eCase {
    /// Per client: (source address 127.0.0.<1+x>, listener index 0/1, batch).
    /// Clients of one batch connect concurrently; all stay open until every batch connected.
    pub clients: Vec<(u8, u8, u8)>,
    /// Listener 1 belongs to a second server whose rtr-tcp-keepalive the kernel rejects: the setup of
    /// every connection to it fails after the connection was accepted.
    #[serde(default)]
    pub failing_setups: bool,
}

fn e2e_strategy() -> impl Strategy<Value = E2eCase> {
    (prop::collection::vec((0u8..4, 0u8..2, 0u8..3), 6..=20), prop::bool::weighted(0.4)).prop_map(|(clients, failing_setups)| E2eCase { clients, failing_setups })
}

fn prop_e2e(case: &E2eCase, info: &mut CaseInfo) -> Verdict {
    use crate::rtrnet::*;
    let srv = match RtrTestServer::start(2, Some(std::time::Duration::from_secs(60)), true) {
        Ok(s) => s,
        Err(e) => return Verdict::Dropped(format!("listener_start:{}", e)),
    };
    let metrics = srv.metrics.clone();
    let mut ports = srv.ports.clone();
    let failing = case.failing_setups && !crate::c19::kernel_accepts_keepalive(100_000);
    let bad = if failing {
        match RtrTestServer::start(1, Some(std::time::Duration::from_secs(100_000)), true) {
            Ok(s) => Some(s),
            Err(e) => return Verdict::Dropped(format!("listener_start:{}", e)),
        }
    } else {
        None
    };
    if let Some(b) = &bad {
        ports[1] = b.ports[0];
        info.class("e2e_failing_setups");
    }
    let t = std::time::Duration::from_secs(5);
    let clients = case.clients.clone();
    let res: Result<(BTreeMap<IpAddr, u64>, usize, Vec<RtrClient>), String> = srv.rt.block_on(async move {
        let mut open = Vec::new();
        let mut per: BTreeMap<IpAddr, u64> = BTreeMap::new();
        let mut concurrent_same = 0usize;
        for batch in 0..3u8 {
            let members: Vec<_> = clients.iter().filter(|c| c.2 == batch).cloned().collect();
            let mut firsts: BTreeMap<u8, usize> = BTreeMap::new();
            for m in &members {
                let ip: IpAddr = format!("127.0.0.{}", 1 + m.0).parse().unwrap();
                if !per.contains_key(&ip) {
                    *firsts.entry(m.0).or_default() += 1;
                }
            }
            concurrent_same += firsts.values().filter(|n| **n >= 2).count();
            let futs = members.iter().map(|m| {
                let src: IpAddr = format!("127.0.0.{}", 1 + m.0).parse().unwrap();
                let port = ports[m.1 as usize];
                let expect_closed = failing && m.1 == 1;
                async move {
                    let mut c = RtrClient::connect_from(src, port).await?;
                    match c.reset_query(1, t).await {
                        Exchange::Answered { .. } if !expect_closed => Ok::<_, String>(Some((src, c))),
                        Exchange::Closed | Exchange::Io(_) if expect_closed => Ok(None),
                        other => Err(format!("client from {} not served: {:?}", src, other)),
                    }
                }
            });
            for r in futures::future::join_all(futs).await {
                if let Some((src, c)) = r? {
                    *per.entry(src).or_default() += 1;
                    open.push(c);
                }
            }
        }
        // all connections are open now; the caller inspects the metrics, then they close.
        Ok((per, concurrent_same, open))
    });
    let (per, concurrent_same, open) = match res {
        Ok(x) => x,
        Err(e) => return Verdict::Dropped(format!("client_io:{}", crate::core::truncate(&e, 60))),
    };
    info.nt(concurrent_same > 0);
    if concurrent_same > 0 {
        info.class("e2e_concurrent_first_connections");
    }
    info.class(format!("e2e_addrs={}", per.len()));
    let check_open = (|| -> Result<(), String> {
        let list = metrics.clients().ok_or("unknown|clients() is None")?;
        let listed: Vec<IpAddr> = list.iter().map(|x| x.0).collect();
        let expected: Vec<IpAddr> = per.keys().copied().collect();
        if listed != expected {
            let key = if listed.windows(2).any(|w| w[0] >= w[1]) { "unsorted-or-duplicate" } else { "address-lost" };
            return Err(format!("{}|client list {:?}, expected {:?}", key, listed, expected));
        }
        for (a, d) in list.iter() {
            if d.current_connections() as u64 != per[a] {
                return Err(format!("open-count-mismatch|{} has {} open connections, entry shows {}", a, per[a], d.current_connections()));
            }
            // every client sent exactly one 8-byte Reset Query and the server read it before answering
            if d.bytes_read() != 8 * per[a] {
                return Err(format!("handle-not-aliased|{} connections from {} sent 8 bytes each and were answered, but the listed entry counts {} bytes read", per[a], a, d.bytes_read()));
            }
        }
        let total: u64 = per.values().sum();
        if metrics.global().current_connections() as u64 != total {
            return Err(format!("global-mismatch|{} connections open, global shows {}", total, metrics.global().current_connections()));
        }
        Ok(())
    })();
    // close everything and wait (bounded) for the server side to notice
    {
        let _g = srv.rt.enter();
        drop(open);
    }
    if let Err(e) = check_open {
        return fail_e2e(e);
    }
    let deadline = std::time::Instant::now() + std::time::Duration::from_secs(10);
    loop {
        let is_zero = |m: &RtrServerMetrics| m.global().current_connections() == 0 && m.clients().map(|l| l.iter().all(|x| x.1.current_connections() == 0)).unwrap_or(false);
        let bad_zero = bad.as_ref().map(|b| is_zero(&b.metrics)).unwrap_or(true);
        if is_zero(&metrics) && bad_zero {
            break;
        }
        if std::time::Instant::now() > deadline && !bad_zero {
            let b = bad.as_ref().unwrap();
            return Verdict::fail("C36/e2e/nonzero-after-failed-setups", format!("every connection to the listener whose keepalive the kernel rejects was closed by the server during setup, 10 s later its metrics still show open connections: global={} per-client={:?}", b.metrics.global().current_connections(), b.metrics.clients().map(|l| l.iter().map(|x| (x.0, x.1.current_connections())).collect::<Vec<_>>())));
        }
        if std::time::Instant::now() > deadline {
            // bounded-wait verdict: only reported when a control connection shows the server is responsive
            let ok = srv.rt.block_on(async {
                match RtrClient::connect_from("127.0.0.1".parse().unwrap(), srv.ports[0]).await {
                    Ok(mut c) => matches!(c.reset_query(1, std::time::Duration::from_secs(2)).await, Exchange::Answered { .. }),
                    Err(_) => false,
                }
            });
            if !ok {
                return Verdict::Dropped("slow_close".into());
            }
            return Verdict::fail("C36/e2e/nonzero-after-close", format!("10 s after every client closed: global={} per-client={:?}", metrics.global().current_connections(), metrics.clients().map(|l| l.iter().map(|x| (x.0, x.1.current_connections())).collect::<Vec<_>>())));
        }
        std::thread::sleep(std::time::Duration::from_millis(5));
    }
    Verdict::Pass
}

fn fail_e2e(e: String) -> Verdict {
    let (k, m) = e.split_once('|').map(|(a, b)| (a.to_string(), b.to_string())).unwrap_or(("invariant".into(), e.clone()));
    Verdict::fail(format!("C36/e2e/{}", k), m)
}

