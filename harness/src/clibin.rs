//! The hooked `routinator` CLI binary (feature `verif-hooks`) built from the same source tree the
//! harness links against, and a watchdog-guarded subprocess runner.

use std::path::{Path, PathBuf};
use std::process::{Command, Stdio};
use std::time::{Duration, Instant};

use crate::core::verif_dir;

/// Source directory of the routinator crate: env `VERIF_REPO_DIR`, else the `path` of the
/// `routinator` dependency in `<VERIF_DIR>/harness/Cargo.toml`, else `/repo`. Keeping the two in
/// sync means a mutant scratch copy is used for the binary as soon as the harness points at it.
pub fn repo_dir() -> PathBuf {
    if let Ok(d) = std::env::var("VERIF_REPO_DIR") {
        return PathBuf::from(d);
    }
    let toml = verif_dir().join("harness").join("Cargo.toml");
    if let Ok(text) = std::fs::read_to_string(&toml) {
        for line in text.lines() {
            let l = line.trim();
            if l.starts_with("routinator") {
                if let Some(i) = l.find("path") {
                    let rest = &l[i..];
                    if let Some(q1) = rest.find('"') {
                        if let Some(q2) = rest[q1 + 1..].find('"') {
                            return PathBuf::from(&rest[q1 + 1..q1 + 1 + q2]);
                        }
                    }
                }
            }
        }
    }
    PathBuf::from("/repo")
}

/// Builds (incrementally) and returns the hooked binary. Err = infrastructure failure (exit 2).
pub fn hooked_binary() -> Result<PathBuf, String> {
    let repo = repo_dir();
    // RV_REPO_BIN_TARGET: build directory override (tools/mutrun.sh keeps one across mutants)
    let target = std::env::var_os("RV_REPO_BIN_TARGET").map(PathBuf::from).unwrap_or_else(|| verif_dir().join("harness").join("target").join("repo-bin"));
    let out = Command::new("cargo")
        .args(["build", "--release", "--offline", "--features", "verif-hooks", "--bin", "routinator", "--manifest-path"])
        .arg(repo.join("Cargo.toml"))
        .arg("--target-dir")
        .arg(&target)
        .env("CARGO_NET_OFFLINE", "true")
        .stdin(Stdio::null())
        .output()
        .map_err(|e| format!("cannot run cargo: {}", e))?;
    if !out.status.success() {
        let err = String::from_utf8_lossy(&out.stderr);
        let tail: Vec<&str> = err.lines().rev().take(30).collect();
        return Err(format!("building the hooked routinator binary from {} failed:\n{}", repo.display(), tail.into_iter().rev().collect::<Vec<_>>().join("\n")));
    }
    let bin = target.join("release").join("routinator");
    if !bin.is_file() {
        return Err(format!("{} missing after build", bin.display()));
    }
    Ok(bin)
}

#[derive(Debug, Clone)]
pub struct ProcResult {
    /// Exit code; None = killed by a signal.
    pub code: Option<i32>,
    pub signal: Option<i32>,
    pub stdout: Vec<u8>,
    pub stderr: Vec<u8>,
    pub wall: Duration,
    /// The watchdog had to kill the process (never a verdict).
    pub watchdog: bool,
}

/// Runs a command with a generous watchdog. stdout/stderr are captured through files in `scratch`.
pub fn run_watchdog(mut cmd: Command, scratch: &Path, watchdog: Duration) -> Result<ProcResult, String> {
    use std::os::unix::process::ExitStatusExt;
    let out_path = scratch.join("stdout");
    let err_path = scratch.join("stderr");
    let out = std::fs::File::create(&out_path).map_err(|e| e.to_string())?;
    let err = std::fs::File::create(&err_path).map_err(|e| e.to_string())?;
    cmd.stdin(Stdio::null()).stdout(out).stderr(err);
    let start = Instant::now();
    let mut child = cmd.spawn().map_err(|e| format!("spawn: {}", e))?;
    let mut killed = false;
    let status = loop {
        match child.try_wait().map_err(|e| e.to_string())? {
            Some(st) => break st,
            None => {
                if start.elapsed() > watchdog {
                    let _ = child.kill();
                    killed = true;
                    break child.wait().map_err(|e| e.to_string())?;
                }
                let el = start.elapsed();
                std::thread::sleep(if el < Duration::from_millis(200) { Duration::from_millis(2) } else { Duration::from_millis(20) });
            }
        }
    };
    Ok(ProcResult {
        code: status.code(),
        signal: status.signal(),
        stdout: std::fs::read(&out_path).unwrap_or_default(),
        stderr: std::fs::read(&err_path).unwrap_or_default(),
        wall: start.elapsed(),
        watchdog: killed,
    })
}

/// Runs `f(i)` for i in 0..n on `workers` threads; results in index order.
pub fn parallel_map<T: Send, F: Fn(usize) -> T + Sync>(n: usize, workers: usize, f: F) -> Vec<T> {
    use std::sync::atomic::{AtomicUsize, Ordering};
    let next = AtomicUsize::new(0);
    let results: std::sync::Mutex<Vec<Option<T>>> = std::sync::Mutex::new((0..n).map(|_| None).collect());
    std::thread::scope(|s| {
        for _ in 0..workers.min(n.max(1)) {
            s.spawn(|| loop {
                let i = next.fetch_add(1, Ordering::SeqCst);
                if i >= n {
                    break;
                }
                let r = f(i);
                results.lock().unwrap()[i] = Some(r);
            });
        }
    });
    results.into_inner().unwrap().into_iter().map(|x| x.expect("worker result")).collect()
}
