//! C07 Validation terminates on deep or cyclic CA hierarchies.

use std::sync::mpsc;
use std::time::Duration;

use proptest::prelude::*;

use crate::core::*;
use crate::erpki::*;
use crate::erun::*;
use crate::escen::*;

fn scenario(words: &[u16]) -> Scenario {
    let mut d = D::new(words);
    let mut cfg = Cfg::default();
    cfg.max_depth = d.pick(&[2usize, 0, 1, 5]);
    cfg.threads = d.pick(&[2usize, 1, 8]);
    let p = Profile { max_cas: 12, max_tals: 1, max_objs: 2, versions: 1, fault_16: 0, obj_faults: false, cert_faults: false, pp_faults: false, vary_cfg: false, modules: 2, rrdp_16: 0, rrdp_repos: 2 };
    // a chain crossing the depth bound, with optional side branches and loop certificates
    let chain_len = (cfg.max_depth as i64 + d.pick(&[1i64, 0, 2, -1])).max(0) as usize + 1;
    let mut cas: Vec<Ca> = Vec::new();
    for i in 0..chain_len.min(9) {
        let versions = vec![decode_version(&mut d, &p, 0)];
        cas.push(Ca { parent: if i == 0 { None } else { Some(i - 1) }, key: i, module: d.below(2), not_after: 86400 * 365, cert_fault: None, versions, extra_res: None, ta_alt: vec![], sia_under_parent_mft: false, rrdp: None });
    }
    // extra children: plain siblings or cycle / loop certificates
    let extra = d.below(5);
    for _ in 0..extra {
        let i = cas.len();
        if i >= 14 {
            break;
        }
        let parent = d.below(i);
        let kind = d.below(4);
        let up = 1 + d.below(3) as u8;
        let cert_fault = match kind {
            0 => None,
            1 => Some(CertFault::LoopKey(up)),
            _ => Some(CertFault::CycleTo(up)),
        };
        let versions = vec![decode_version(&mut d, &p, 0)];
        cas.push(Ca { parent: Some(parent), key: i, module: d.below(2), not_after: 86400 * 365, cert_fault, versions, extra_res: None, ta_alt: vec![], sia_under_parent_mft: false, rrdp: None });
        // cycles come in pairs so that a missing loop check multiplies work at every level
        if matches!(cert_fault, Some(CertFault::CycleTo(_))) && cas.len() < 14 {
            let j = cas.len();
            let versions = vec![decode_version(&mut d, &p, 0)];
            cas.push(Ca { parent: Some(parent), key: j, module: 0, not_after: 86400 * 365, cert_fault, versions, extra_res: None, ta_alt: vec![], sia_under_parent_mft: false, rrdp: None });
        }
    }
    let steps = vec![Step { publish: vec![0; cas.len()], fail_modules: vec![], offline: false, stale: None, foreign_tal_key: vec![], ta_serve: vec![], fail_rrdp: vec![] }];
    Scenario { cfg, cas, steps }
}

fn classify(sc: &Scenario, info: &mut CaseInfo) {
    let crossing = (0..sc.cas.len()).any(|i| depth(sc, i) > sc.cfg.max_depth);
    let cycle = sc.cas.iter().any(|c| matches!(c.cert_fault, Some(CertFault::CycleTo(_)) | Some(CertFault::LoopKey(_))));
    info.nontrivial = crossing || cycle;
    if crossing {
        info.class("chain_crosses_depth_bound");
    }
    if cycle {
        info.class("cycle_or_repeated_key");
    }
    info.class(format!("max_depth_{}", sc.cfg.max_depth));
}

/// Runs the judge on a helper thread; returns None if it does not come back within `secs`.
fn judge_with_watchdog(sc: &Scenario, secs: u64) -> Option<(Verdict, CaseInfo)> {
    let (tx, rx) = mpsc::channel();
    let sc2 = sc.clone();
    std::thread::spawn(move || {
        let mut info = CaseInfo::default();
        let j = Judge { id: "C07", sound: true, complete: true, points: true, ..Default::default() };
        let v = judge(&j, &sc2, &mut info, |_, _| None);
        let _ = tx.send((v, info));
    });
    rx.recv_timeout(Duration::from_secs(secs)).ok()
}

fn prop(sc: &Scenario, info: &mut CaseInfo) -> Verdict {
    classify(sc, info);
    match judge_with_watchdog(sc, 60) {
        Some((v, _)) => v,
        None => {
            // Did not return: run a clean control of the same size beside a second, longer attempt.
            let mut control = sc.clone();
            for c in control.cas.iter_mut() {
                c.cert_fault = None;
            }
            control.cfg.max_depth = 32;
            let control_ok = judge_with_watchdog(&control, 60).is_some();
            if !control_ok {
                return Verdict::Dropped("machine_overloaded_control_slow".into());
            }
            match judge_with_watchdog(sc, 240) {
                Some((v, _)) => v,
                None => Verdict::fail("C07/non-termination", "validation run did not return within 240 s while a clean control tree of the same size finished within 60 s".to_string()),
            }
        }
    }
}

pub fn run(ctx: &Ctx, rep: &mut Report, replay: Option<&serde_json::Value>) {
    rep.rule("E-rpki single-run trees: a CA chain of length max-ca-depth-1 .. +2 for max-ca-depth in {0,1,2,5}, up to 5 extra children that are plain CAs, certificates repeating the key of an ancestor 1-3 levels up, or true cycles (certificate for an ancestor's key whose SIA points at that ancestor's publication point; generated in pairs so a missing loop check multiplies work per level), 1/2/8 validation threads; oracle: the run returns (60 s watchdog, then a control run and a 240 s second attempt before non-termination is reported), payload and accepted/rejected point counts equal the model (CAs beyond the depth bound and looping certificates contribute nothing, everything else is processed); non-trivial = the tree crosses the depth bound or contains a repeated key; distinct by serialised scenario");
    rep.assume("a time bound is part of this oracle (non-termination is what the property forbids); a slow control run drops the case instead of reporting");
    ctx.shrink_iters.store(100, std::sync::atomic::Ordering::Relaxed);
    if let Some(v) = replay {
        let t: Tagged<Scenario> = serde_json::from_value(v.clone()).expect("replay");
        run_case(ctx, rep, &t.sub, &t.case, prop);
        return;
    }
    run_prop_par(ctx, rep, "chains", ctx.tier.pick(200, 4000), 8, || genome(200).prop_map(|w| scenario(&w)), prop);
}
