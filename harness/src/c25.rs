//! C25 RRDP updates reproduce the server state or report failure.
//!
//! Stateful PBT: an RRDP publisher model (`httpsrv::RrdpServer`) is driven by generated operations;
//! routinator's real collector fetches from it through the in-harness HTTPS server 2–8 times per case,
//! each fetch with 0–2 scripted faults; the local cache is carried over.
//! Oracle (outcome based, no prediction of *whether* an update succeeds): whenever
//! `Run::repository(&ca)` hands out an RRDP repository, the archive content must equal the
//! server's object set at the notified (session, serial) — for a 304 the one in the local state —
//! and the recorded state must name that session/serial; `load_object` must agree.

use std::collections::BTreeMap;
use std::sync::atomic::{AtomicU64, Ordering};

use bytes::Bytes;
use proptest::prelude::*;
use routinator::collector::Collector;
use rpki::uri;
use serde::{Deserialize, Serialize};
use uuid::Uuid;

use crate::core::*;
use crate::erun::scratch_base;
use crate::httpsrv::*;

pub const IMPLEMENTED: bool = true;

const HOST: &str = "rrdp.rpki.test";
const N_URIS: u8 = 6;
const N_CONTENTS: u8 = 3;

pub const KEY_GAP: &str = "C25/gapped-delta-list-applied";
pub const KEY_REUSE: &str = "C25/modified-copy-reused-after-failed-update";
pub const KEY_304_NOCOPY: &str = "C25/not-modified-without-local-copy/run-failed";

static EXCLUDED_GAP: AtomicU64 = AtomicU64::new(0);
static EXCLUDED_REUSE: AtomicU64 = AtomicU64::new(0);
static EXCLUDED_304: AtomicU64 = AtomicU64::new(0);
static CLEAN_FETCH_FAILED: AtomicU64 = AtomicU64::new(0);

#[derive(Serialize, Deserialize, Clone, Debug, PartialEq, Eq)]
pub enum Op {
    /// publish (or update) object `u` with content `c`
    Put { u: u8, c: u8 },
    Del { u: u8 },
    /// several changes in one delta
    Multi(Vec<(u8, Option<u8>)>),
    NewSession,
    /// serial jump without deltas
    Jump(u8),
    /// server forgets all but the newest k deltas
    Trim(u8),
    /// server rewrites its newest delta (and current state) without a new serial
    Rewrite { u: u8, c: u8 },
}

#[derive(Serialize, Deserialize, Clone, Debug, PartialEq, Eq)]
pub enum Fault {
    // notification file
    N404,
    N500,
    NDrop,
    NMalformed,
    /// 304 whatever the request says
    N304,
    /// an older notification file (k versions back) is served
    NStale(u8),
    /// a delta URI on another host
    NOtherOrigin,
    /// newest k list entries missing
    LTruncNew(u8),
    /// oldest k list entries missing
    LTruncOld(u8),
    /// an inner entry of the needed range missing
    LGap(u8),
    LDup(u8),
    /// file i re-serialised (same meaning, other hash), list names the new hash
    LHashMut(u8),
    /// list padded beyond rrdp-max-delta-list-len
    LOverlong,
    // delta file i of the needed range
    DHash(u8),
    /// delta file altered in transit (one more object), listed hash is the honest file's
    DTamper(u8),
    DMalformed(u8),
    DSession(u8),
    DSerial(u8),
    D404(u8),
    D500(u8),
    DDrop(u8),
    DRepeat(u8),
    DPubExisting(u8),
    DWithdrawMissing(u8),
    // snapshot file
    SHash,
    /// snapshot file altered in transit (one more object), listed hash is the honest file's
    STamper,
    SMalformed,
    SSession,
    SSerial,
    S404,
    S500,
    SDrop,
    SDup,
}

impl Fault {
    fn name(&self) -> &'static str {
        use Fault::*;
        match self {
            N404 => "N404",
            N500 => "N500",
            NDrop => "NDrop",
            NMalformed => "NMalformed",
            N304 => "N304",
            NStale(_) => "NStale",
            NOtherOrigin => "NOtherOrigin",
            LTruncNew(_) => "LTruncNew",
            LTruncOld(_) => "LTruncOld",
            LGap(_) => "LGap",
            LDup(_) => "LDup",
            LHashMut(_) => "LHashMut",
            LOverlong => "LOverlong",
            DHash(_) => "DHash",
            DTamper(_) => "DTamper",
            DMalformed(_) => "DMalformed",
            DSession(_) => "DSession",
            DSerial(_) => "DSerial",
            D404(_) => "D404",
            D500(_) => "D500",
            DDrop(_) => "DDrop",
            DRepeat(_) => "DRepeat",
            DPubExisting(_) => "DPubExisting",
            DWithdrawMissing(_) => "DWithdrawMissing",
            SHash => "SHash",
            STamper => "STamper",
            SMalformed => "SMalformed",
            SSession => "SSession",
            SSerial => "SSerial",
            S404 => "S404",
            S500 => "S500",
            SDrop => "SDrop",
            SDup => "SDup",
        }
    }
}

#[derive(Serialize, Deserialize, Clone, Debug, PartialEq, Eq)]
pub enum Step {
    Server(Op),
    Fetch(Vec<Fault>),
}

#[derive(Serialize, Deserialize, Clone, Debug, PartialEq, Eq)]
pub struct Case {
    pub seed: u64,
    /// deltas the server retains
    pub srv_deltas: u8,
    /// rrdp-max-delta-count of the client
    pub max_delta_count: u8,
    /// rrdp-max-delta-list-len of the client
    pub max_list_len: u8,
    /// notification served with ETag and honest conditional handling
    pub etag: bool,
    pub steps: Vec<Step>,
}

pub fn obj_uri(u: u8) -> String {
    format!("rsync://rv.rpki.test/repo/o{}.roa", u % N_URIS)
}

pub fn content(u: u8, c: u8) -> Bytes {
    let c = c % N_CONTENTS;
    let len = [1usize, 40, 3000][c as usize];
    let mut v = format!("{}:{}:", u % N_URIS, c).into_bytes();
    while v.len() < len {
        v.push(b'a' + ((v.len() as u8).wrapping_mul(7).wrapping_add(u).wrapping_add(c) % 26));
    }
    v.truncate(len.max(1));
    if len == 1 {
        v = vec![b'0' + (u % N_URIS) * N_CONTENTS + c];
    }
    Bytes::from(v)
}

fn op_strategy() -> impl Strategy<Value = Op> {
    prop_oneof![
        8 => (0..N_URIS, 0..N_CONTENTS).prop_map(|(u, c)| Op::Put { u, c }),
        3 => (0..N_URIS).prop_map(|u| Op::Del { u }),
        3 => prop::collection::vec((0..N_URIS, prop::option::weighted(0.7, 0..N_CONTENTS)), 2..4).prop_map(Op::Multi),
        1 => Just(Op::NewSession),
        1 => (1u8..4).prop_map(Op::Jump),
        1 => (0u8..3).prop_map(Op::Trim),
        1 => (0..N_URIS, 0..N_CONTENTS).prop_map(|(u, c)| Op::Rewrite { u, c }),
    ]
}

fn fault_strategy() -> impl Strategy<Value = Fault> {
    use Fault::*;
    let i = || 0u8..4;
    prop_oneof![
        Just(N404),
        Just(N500),
        Just(NDrop),
        Just(NMalformed),
        Just(N304),
        Just(N304),
        (1u8..4).prop_map(NStale),
        Just(NOtherOrigin),
        (1u8..3).prop_map(LTruncNew),
        (1u8..3).prop_map(LTruncOld),
        i().prop_map(LGap),
        i().prop_map(LGap),
        i().prop_map(LDup),
        i().prop_map(LHashMut),
        Just(LOverlong),
        i().prop_map(DHash),
        i().prop_map(DTamper),
        i().prop_map(DTamper),
        i().prop_map(DMalformed),
        i().prop_map(DSession),
        i().prop_map(DSerial),
        i().prop_map(D404),
        i().prop_map(D500),
        i().prop_map(DDrop),
        i().prop_map(DRepeat),
        i().prop_map(DPubExisting),
        i().prop_map(DWithdrawMissing),
        Just(SHash),
        Just(STamper),
        Just(SMalformed),
        Just(SSession),
        Just(SSerial),
        Just(S404),
        Just(S404),
        Just(S500),
        Just(SDrop),
        Just(SDup),
    ]
}

fn step_strategy() -> impl Strategy<Value = Step> {
    prop_oneof![
        5 => op_strategy().prop_map(Step::Server),
        3 => prop::collection::vec(fault_strategy(), 0..3).prop_map(Step::Fetch),
    ]
}

fn count_fetches(steps: &[Step]) -> usize {
    steps.iter().filter(|s| matches!(s, Step::Fetch(_))).count()
}

pub fn case_strategy(max_steps: usize) -> impl Strategy<Value = Case> {
    (any::<u64>(), 2u8..8, 1u8..5, 3u8..8, any::<bool>(), prop::collection::vec(step_strategy(), 4..max_steps)).prop_map(|(seed, srv_deltas, max_delta_count, max_list_len, etag, mut steps)| {
        // 2..=8 client updates per case
        while count_fetches(&steps) < 2 {
            steps.push(Step::Fetch(vec![]));
        }
        let mut seen = 0;
        steps.retain(|s| {
            if matches!(s, Step::Fetch(_)) {
                seen += 1;
                seen <= 8
            } else {
                true
            }
        });
        Case { seed, srv_deltas, max_delta_count, max_list_len, etag, steps }
    })
}


/// Histories built around an update that is interrupted half-way: a synchronised client, 2-4 new
/// deltas on the server, a fetch in which a later delta fails and the snapshot fall-back fails as
/// well, then 1-2 quiet fetches (the server unchanged, no faults — with ETags the server honestly
/// answers whatever the client's recorded validators imply), optionally one more server change and
/// a final fetch.
pub fn interrupted_strategy() -> impl Strategy<Value = Case> {
    let dfault = (0u8..6, 1u8..4).prop_map(|(k, i)| match k {
        0 => Fault::D404(i),
        1 => Fault::DHash(i),
        2 => Fault::DMalformed(i),
        3 => Fault::D500(i),
        4 => Fault::DDrop(i),
        _ => Fault::DSerial(i),
    });
    let sfault = prop::sample::select(vec![Fault::S404, Fault::SHash, Fault::SMalformed, Fault::S500, Fault::SDrop]);
    let simple_op = prop_oneof![(0u8..N_URIS, 0u8..N_CONTENTS).prop_map(|(u, c)| Op::Put { u, c }), (0u8..N_URIS).prop_map(|u| Op::Del { u })];
    (
        any::<u64>(),
        prop::bool::weighted(0.8),
        prop::collection::vec(simple_op.clone(), 1..=3),
        prop::collection::vec(simple_op.clone(), 2..=4),
        dfault,
        sfault,
        1usize..=2,
        prop::option::of(simple_op),
    )
        .prop_map(|(seed, etag, init, deltas, df, sf, quiet, tail)| {
            let mut steps: Vec<Step> = init.into_iter().map(Step::Server).collect();
            steps.push(Step::Fetch(vec![]));
            steps.extend(deltas.into_iter().map(Step::Server));
            steps.push(Step::Fetch(vec![df, sf]));
            for _ in 0..quiet {
                steps.push(Step::Fetch(vec![]));
            }
            if let Some(op) = tail {
                steps.push(Step::Server(op));
                steps.push(Step::Fetch(vec![]));
            }
            Case { seed, srv_deltas: 7, max_delta_count: 6, max_list_len: 7, etag, steps }
        })
}

#[derive(Clone)]
struct Version {
    session: Uuid,
    serial: u64,
    objects: BTreeMap<String, Bytes>,
    notification: Vec<u8>,
}

#[derive(Clone)]
struct Local {
    session: Uuid,
    serial: u64,
    objects: BTreeMap<String, Bytes>,
}

fn apply_op(server: &mut RrdpServer, op: &Op) {
    match op {
        Op::Put { u, c } => {
            server.apply(&[(obj_uri(*u), Some(content(*u, *c)))]);
        }
        Op::Del { u } => {
            server.apply(&[(obj_uri(*u), None)]);
        }
        Op::Multi(list) => {
            let changes: Vec<(String, Option<Bytes>)> = list.iter().map(|(u, c)| (obj_uri(*u), c.map(|c| content(*u, c)))).collect();
            server.apply(&changes);
        }
        Op::NewSession => server.new_session(),
        Op::Jump(n) => server.jump(*n as u64),
        Op::Trim(k) => server.trim(*k as usize),
        Op::Rewrite { u, c } => {
            // the newest delta additionally (re)publishes object u; the current state follows
            let uri = obj_uri(*u);
            let data = content(*u, *c);
            let Some(last) = server.deltas.back_mut() else { return };
            // state before that delta, for the element kind
            let touched = last.els.iter().position(|e| match e {
                DeltaEl::Publish { uri: x, .. } | DeltaEl::Update { uri: x, .. } | DeltaEl::Withdraw { uri: x, .. } => *x == uri,
            });
            match touched {
                Some(p) => {
                    let new_el = match &last.els[p] {
                        DeltaEl::Publish { .. } => DeltaEl::Publish { uri: uri.clone(), data: data.clone() },
                        DeltaEl::Update { old_hash, .. } => DeltaEl::Update { uri: uri.clone(), old_hash: old_hash.clone(), data: data.clone() },
                        DeltaEl::Withdraw { hash, .. } => DeltaEl::Update { uri: uri.clone(), old_hash: hash.clone(), data: data.clone() },
                    };
                    last.els[p] = new_el;
                }
                None => match server.objects.get(&uri) {
                    Some(old) => last.els.push(DeltaEl::Update { uri: uri.clone(), old_hash: sha256_hex(old), data: data.clone() }),
                    None => last.els.push(DeltaEl::Publish { uri: uri.clone(), data: data.clone() }),
                },
            }
            server.objects.insert(uri, data);
            server.history.insert((server.session, server.serial), server.objects.clone());
        }
    }
}

const FOREIGN: &str = "rsync://rv.rpki.test/repo/foreign.roa";

/// The elements plus one object the server never published (what a file from elsewhere would bring).
fn foreign_els(els: &[DeltaEl]) -> Vec<DeltaEl> {
    let mut v = els.to_vec();
    v.push(DeltaEl::Publish { uri: FOREIGN.into(), data: Bytes::from_static(b"not from this server") });
    v
}

fn foreign_objects(objects: &BTreeMap<String, Bytes>) -> BTreeMap<String, Bytes> {
    let mut o = objects.clone();
    o.insert(FOREIGN.into(), Bytes::from_static(b"not from this server"));
    o
}

fn delta_uri_of(el: &DeltaEl) -> &str {
    match el {
        DeltaEl::Publish { uri, .. } | DeltaEl::Update { uri, .. } | DeltaEl::Withdraw { uri, .. } => uri,
    }
}

/// Does the sorted list, read from `from` upwards, lead to `to` with a hole in between?
fn gap_in_needed(list: &[(u64, String, String)], from: u64, to: u64) -> bool {
    let mut serials: Vec<u64> = list.iter().map(|x| x.0).filter(|s| *s >= from && *s <= to).collect();
    serials.sort();
    if serials.first() != Some(&from) || serials.last() != Some(&to) {
        return false;
    }
    serials.windows(2).any(|w| w[1] > w[0] + 1)
}

struct Outcome {
    verdict: Option<Verdict>,
}

#[allow(clippy::too_many_lines)]
fn prop(case: &Case, info: &mut CaseInfo) -> Verdict {
    prop_with(case, info, true)
}

/// Directed representatives and replays run without the known-shape exclusion.
fn prop_all(case: &Case, info: &mut CaseInfo) -> Verdict {
    prop_with(case, info, false)
}

#[allow(clippy::too_many_lines)]
fn prop_with(case: &Case, info: &mut CaseInfo, exclude_known: bool) -> Verdict {
    let dir = tempfile::Builder::new().prefix("c25-").tempdir_in(scratch_base()).expect("tmp");
    let srv = HttpsServer::start();
    let mut server = RrdpServer::new(HOST, "rrdp", case.seed);
    server.max_deltas = case.srv_deltas.max(1) as usize;
    let mut config = client_config(dir.path(), &srv);
    config.disable_rsync = true;
    config.rrdp_max_delta_count = case.max_delta_count.max(1) as usize;
    config.rrdp_max_delta_list_len = case.max_list_len.max(1) as usize;
    let mut collector = match Collector::new(&config) {
        Ok(c) => c,
        Err(_) => return Verdict::Dropped("collector_new_failed".into()),
    };
    if collector.ignite().is_err() {
        return Verdict::Dropped("collector_ignite_failed".into());
    }
    let notify = server.notify_uri();
    let ca = ta_ca_cert(0, &uri::Rsync::from_string("rsync://rv.rpki.test/repo/".into()).unwrap(), Some(&notify));
    let universe: Vec<uri::Rsync> = (0..N_URIS).map(|u| uri::Rsync::from_string(obj_uri(u)).unwrap()).collect();

    let mut local: Option<Local> = None;
    let mut versions: Vec<Version> = Vec::new();
    let mut dirty = false;
    // serials (of the current session) whose delta the server rewrote in place since the client's last good update
    let mut rewritten: Vec<u64> = Vec::new();
    let mut n_fetch = 0usize;
    let mut delta_path_updates = 0usize;
    let mut faults_seen = 0usize;
    let known_gap = exclude_known && is_listed_known("C25", KEY_GAP);
    let known_reuse = exclude_known && is_listed_known("C25", KEY_REUSE);
    let known_304 = exclude_known && is_listed_known("C25", KEY_304_NOCOPY);

    for step in &case.steps {
        let faults = match step {
            Step::Server(op) => {
                if matches!(op, Op::Rewrite { .. }) {
                    if let Some(d) = server.deltas.back() {
                        rewritten.push(d.serial);
                    }
                }
                if matches!(op, Op::NewSession) {
                    rewritten.clear();
                }
                apply_op(&mut server, op);
                continue;
            }
            Step::Fetch(f) => f,
        };
        n_fetch += 1;
        // --- truthful files (old paths stay served)
        let truthful_notification = server.notification_xml();
        let tag = format!("\"{}\"", &sha256_hex(&truthful_notification)[..16]);
        let mk_notify = |body: Vec<u8>| -> Resp {
            if case.etag {
                Resp::ok(body).etag(&tag).conditional()
            } else {
                Resp::ok(body)
            }
        };
        srv.set(HOST, &server.notify_path(), mk_notify(truthful_notification.clone()));
        srv.set(HOST, &server.snapshot_path(), Resp::ok(server.snapshot_xml()));
        for d in &server.deltas {
            srv.set(HOST, &server.delta_path(d.serial), Resp::ok(render_delta(&server.session, d.serial, &d.els)));
        }
        versions.push(Version { session: server.session, serial: server.serial, objects: server.objects.clone(), notification: truthful_notification.clone() });

        // --- faults
        let mut list = server.delta_list(); // ascending
        let mut list_changed = false;
        let mut notified: (Uuid, u64) = (server.session, server.serial);
        let mut truth = server.objects.clone();
        let mut notif_override: Option<Resp> = None;
        let mut snapshot_override: Option<Resp> = None;
        let mut snapshot_semantic = false;
        let mut applied: Vec<&'static str> = Vec::new();
        // serials the client needs if it follows deltas
        let needed: Vec<u64> = match &local {
            Some(l) if l.session == server.session && l.serial < server.serial => list.iter().map(|x| x.0).filter(|s| *s > l.serial).collect(),
            _ => Vec::new(),
        };
        let pick = |i: u8, list: &[(u64, String, String)]| -> Option<u64> {
            if !needed.is_empty() {
                Some(needed[i as usize % needed.len()])
            } else if !list.is_empty() {
                Some(list[i as usize % list.len()].0)
            } else {
                None
            }
        };
        let delta_rec = |serial: u64| server.deltas.iter().find(|d| d.serial == serial).cloned();
        for f in faults {
            use Fault::*;
            match f {
                N404 => notif_override = Some(Resp::status(404)),
                N500 => notif_override = Some(Resp::status(500)),
                NDrop => notif_override = Some(Resp::ok(truthful_notification.clone()).drop_after(truthful_notification.len() / 2)),
                NMalformed => {
                    let mut b = truthful_notification[..truthful_notification.len() * 2 / 3].to_vec();
                    b.extend_from_slice(b"<oops");
                    notif_override = Some(Resp::ok(b));
                }
                N304 => {
                    if known_304 && local.is_none() {
                        EXCLUDED_304.fetch_add(1, Ordering::Relaxed);
                        info.class("excluded_known:304-without-copy");
                        continue;
                    }
                    notif_override = Some(Resp::status(304));
                }
                NStale(k) => {
                    if versions.len() >= 2 {
                        let idx = versions.len().saturating_sub(1 + *k as usize);
                        let v = &versions[idx];
                        notif_override = Some(Resp::ok(v.notification.clone()));
                        notified = (v.session, v.serial);
                        truth = v.objects.clone();
                    } else {
                        continue;
                    }
                }
                NOtherOrigin => {
                    if let Some(e) = list.first_mut() {
                        e.1 = e.1.replace(HOST, "other.rpki.test");
                        list_changed = true;
                    } else {
                        continue;
                    }
                }
                LTruncNew(k) => {
                    if list.is_empty() {
                        continue;
                    }
                    for _ in 0..*k {
                        list.pop();
                    }
                    list_changed = true;
                }
                LTruncOld(k) => {
                    if list.is_empty() {
                        continue;
                    }
                    for _ in 0..(*k as usize).min(list.len()) {
                        list.remove(0);
                    }
                    list_changed = true;
                }
                LGap(i) => {
                    // remove an inner entry of the needed range (or of the list)
                    let inner: Vec<u64> = if needed.len() >= 3 { needed[1..needed.len() - 1].to_vec() } else if needed.is_empty() && list.len() >= 3 { list[1..list.len() - 1].iter().map(|x| x.0).collect() } else { Vec::new() };
                    if inner.is_empty() {
                        continue;
                    }
                    let victim = inner[*i as usize % inner.len()];
                    let mut candidate = list.clone();
                    candidate.retain(|x| x.0 != victim);
                    if let Some(l) = &local {
                        if known_gap && l.session == server.session && gap_in_needed(&candidate, l.serial + 1, server.serial) {
                            EXCLUDED_GAP.fetch_add(1, Ordering::Relaxed);
                            info.class("excluded_known:gap");
                            continue;
                        }
                    }
                    list = candidate;
                    list_changed = true;
                }
                LDup(i) => {
                    let Some(s) = pick(*i, &list) else { continue };
                    let Some(e) = list.iter().find(|x| x.0 == s).cloned() else { continue };
                    list.push(e);
                    list_changed = true;
                }
                LHashMut(i) => {
                    let Some(s) = pick(*i, &list) else { continue };
                    let Some(rec) = delta_rec(s) else { continue };
                    let mut body = render_delta(&server.session, s, &rec.els);
                    body.extend_from_slice(b"<!-- reserialised -->\n");
                    for e in list.iter_mut().filter(|x| x.0 == s) {
                        e.2 = sha256_hex(&body);
                    }
                    srv.set(HOST, &server.delta_path(s), Resp::ok(body));
                    list_changed = true;
                }
                LOverlong => {
                    let want = case.max_list_len as usize + 2;
                    let mut low = list.first().map(|x| x.0).unwrap_or(server.serial + 1);
                    let template = list.first().cloned().unwrap_or((0, server.abs(&server.delta_path(0)), sha256_hex(b"x")));
                    while list.len() < want {
                        low = low.saturating_sub(1);
                        let mut e = template.clone();
                        e.0 = low;
                        e.1 = server.abs(&server.delta_path(low));
                        list.insert(0, e);
                    }
                    list_changed = true;
                }
                DHash(i) | DTamper(i) | DMalformed(i) | DSession(i) | DSerial(i) | D404(i) | D500(i) | DDrop(i) | DRepeat(i) | DPubExisting(i) | DWithdrawMissing(i) => {
                    let Some(s) = pick(*i, &list) else { continue };
                    let Some(rec) = delta_rec(s) else { continue };
                    let honest = render_delta(&server.session, s, &rec.els);
                    let path = server.delta_path(s);
                    let mut relist: Option<Vec<u8>> = None;
                    match f {
                        DHash(_) => {
                            let mut b = honest.clone();
                            b.extend_from_slice(b"<!-- not what was listed -->\n");
                            srv.set(HOST, &path, Resp::ok(b));
                        }
                        DTamper(_) => {
                            srv.set(HOST, &path, Resp::ok(render_delta(&server.session, s, &foreign_els(&rec.els))));
                        }
                        DMalformed(_) => {
                            let mut b = honest[..honest.len() * 3 / 4].to_vec();
                            b.extend_from_slice(b"<oops");
                            relist = Some(b.clone());
                            srv.set(HOST, &path, Resp::ok(b));
                        }
                        DSession(_) => {
                            let b = render_delta(&session_uuid(case.seed ^ 0xdead, 99), s, &foreign_els(&rec.els));
                            relist = Some(b.clone());
                            srv.set(HOST, &path, Resp::ok(b));
                        }
                        DSerial(_) => {
                            let b = render_delta(&server.session, s + 1, &foreign_els(&rec.els));
                            relist = Some(b.clone());
                            srv.set(HOST, &path, Resp::ok(b));
                        }
                        D404(_) => srv.set(HOST, &path, Resp::status(404)),
                        D500(_) => srv.set(HOST, &path, Resp::status(500)),
                        DDrop(_) => srv.set(HOST, &path, Resp::ok(honest.clone()).drop_after(honest.len() * 3 / 4)),
                        DRepeat(_) => {
                            let Some(first) = rec.els.first().cloned() else { continue };
                            let mut els = rec.els.clone();
                            // the same object once more: withdraw what the first element left behind
                            let again = match &first {
                                DeltaEl::Publish { uri, data } | DeltaEl::Update { uri, data, .. } => DeltaEl::Withdraw { uri: uri.clone(), hash: sha256_hex(data) },
                                DeltaEl::Withdraw { uri, .. } => DeltaEl::Publish { uri: uri.clone(), data: content(0, 0) },
                            };
                            els.push(again);
                            let b = render_delta(&server.session, s, &els);
                            relist = Some(b.clone());
                            srv.set(HOST, &path, Resp::ok(b));
                        }
                        DPubExisting(_) => {
                            // an object that exists before and after this delta and is not touched by it
                            let before = server.history.get(&(server.session, s - 1));
                            let Some(victim) = before.and_then(|b| b.iter().find(|(u, _)| !rec.els.iter().any(|e| delta_uri_of(e) == u.as_str())).map(|(u, d)| (u.clone(), d.clone()))) else { continue };
                            let mut els = rec.els.clone();
                            els.push(DeltaEl::Publish { uri: victim.0, data: content(5, 2) });
                            let b = render_delta(&server.session, s, &els);
                            relist = Some(b.clone());
                            srv.set(HOST, &path, Resp::ok(b));
                        }
                        DWithdrawMissing(_) => {
                            let mut els = rec.els.clone();
                            els.push(DeltaEl::Withdraw { uri: "rsync://rv.rpki.test/repo/never-published.roa".into(), hash: sha256_hex(b"nothing") });
                            let b = render_delta(&server.session, s, &els);
                            relist = Some(b.clone());
                            srv.set(HOST, &path, Resp::ok(b));
                        }
                        _ => unreachable!(),
                    }
                    if let Some(b) = relist {
                        for e in list.iter_mut().filter(|x| x.0 == s) {
                            e.2 = sha256_hex(&b);
                        }
                        list_changed = true;
                    }
                }
                SHash | STamper | SMalformed | SSession | SSerial | S404 | S500 | SDrop | SDup => {
                    // one snapshot fault per fetch: the first one wins
                    if snapshot_override.is_some() {
                        continue;
                    }
                    snapshot_semantic = matches!(f, SSession | SSerial | SDup);
                    let honest = server.snapshot_xml();
                    snapshot_override = Some(match f {
                        SHash => {
                            let mut b = honest.clone();
                            b.extend_from_slice(b"<!-- not what was listed -->\n");
                            Resp::ok(b)
                        }
                        STamper => Resp::ok(render_snapshot(&server.session, server.serial, &foreign_objects(&server.objects))),
                        SMalformed => {
                            let mut b = honest[..honest.len() * 3 / 4].to_vec();
                            b.extend_from_slice(b"<oops");
                            Resp::ok(b)
                        }
                        SSession => Resp::ok(render_snapshot(&session_uuid(case.seed ^ 0xdead, 98), server.serial, &foreign_objects(&server.objects))),
                        SSerial => Resp::ok(render_snapshot(&server.session, server.serial + 1, &foreign_objects(&server.objects))),
                        S404 => Resp::status(404),
                        S500 => Resp::status(500),
                        SDrop => Resp::ok(honest.clone()).drop_after(honest.len() / 2),
                        SDup => {
                            let Some((u, d)) = server.objects.iter().next() else { continue };
                            let mut s = String::from_utf8(honest.clone()).unwrap();
                            let extra = format!("  <publish uri=\"{}\">{}</publish>\n</snapshot>\n", u, rpki::util::base64::Xml.encode(d));
                            s = s.replace("</snapshot>\n", &extra);
                            Resp::ok(s.into_bytes())
                        }
                        _ => unreachable!(),
                    });
                }
            }
            applied.push(f.name());
        }
        // snapshot faults that keep the listed hash honest-vs-file: for S* the notification keeps the honest hash
        // except the semantic ones (session/serial/dup) where the listed hash follows the file so that only the
        // semantic check can notice.
        let mut snapshot_hash = sha256_hex(&server.snapshot_xml());
        if let Some(r) = &snapshot_override {
            if snapshot_semantic && r.status == 200 {
                snapshot_hash = sha256_hex(&r.body);
                list_changed = true;
            }
            srv.set(HOST, &server.snapshot_path(), r.clone());
        }
        if notif_override.is_none() && list_changed {
            let mut l = list.clone();
            l.reverse();
            notif_override = Some(mk_notify(render_notification(&server.session, server.serial, &server.abs(&server.snapshot_path()), &snapshot_hash, &l)));
        }
        if let Some(r) = notif_override {
            srv.set(HOST, &server.notify_path(), r);
        }
        faults_seen += applied.len();
        for a in &applied {
            info.class(format!("fault:{}", a));
        }

        // --- the client update
        let _ = srv.take_log();
        let before = archive_objects(&config, &notify);
        let recorded: Vec<u64> = archive_state(&config, &notify).ok().flatten().map(|st| st.delta_state.keys().copied().collect()).unwrap_or_default();
        let run = collector.start();
        let res = run.repository(&ca);
        let log = srv.take_log();
        let got304 = log.iter().any(|r| r.path == server.notify_path() && r.status == 304);
        let delta_ok = log.iter().filter(|r| r.path.ends_with("/delta.xml") && r.status == 200).count();
        let snap_req = log.iter().any(|r| r.path.ends_with("/snapshot.xml"));
        let out = (|| -> Outcome {
            let fail = |k: String, m: String| Outcome { verdict: Some(Verdict::fail(k, m)) };
            match &res {
                Ok(Some(repo)) if repo.is_rrdp() => {
                    let (n_sess, n_serial, want) = if got304 {
                        match &local {
                            Some(l) => (l.session, l.serial, l.objects.clone()),
                            None => return fail("C25/not-modified-without-copy-reported-updated".into(), format!("fetch {}: 304 answered to a client without a local copy, yet an RRDP repository was handed out", n_fetch)),
                        }
                    } else {
                        (notified.0, notified.1, truth.clone())
                    };
                    let after = match archive_objects(&config, &notify) {
                        Ok(Some(a)) => a,
                        Ok(None) => return fail("C25/updated-but-no-archive".into(), format!("fetch {}: update reported successful but there is no archive file", n_fetch)),
                        Err(e) => return fail("C25/updated-but-archive-unreadable".into(), format!("fetch {}: {}", n_fetch, e)),
                    };
                    if after != want {
                        // A rewritten delta the client had already applied can only be noticed if the served list still
                        // names that serial and the client recorded its hash at its last update; otherwise no client can tell.
                        let undetectable = local.as_ref().map(|l| l.session == n_sess && rewritten.iter().any(|k| *k <= l.serial && !(list.iter().any(|e| e.0 == *k) && recorded.contains(k)))).unwrap_or(false);
                        if undetectable {
                            return Outcome { verdict: Some(Verdict::Dropped("rewritten_delta_not_detectable".into())) };
                        }
                        let unchanged = before.as_ref().ok().and_then(|b| b.as_ref()).map(|b| *b == after).unwrap_or(false);
                        let gap = local.as_ref().map(|l| l.session == n_sess && gap_in_needed(&list, l.serial + 1, n_serial)).unwrap_or(false);
                        let _ = unchanged;
                        // An honest 304 means the client presented the validator of the notification the server
                        // serves now, i.e. it claims to hold that version. With a copy left by a failed update this
                        // cannot happen unless validators of an unfinished update were recorded (the known shape
                        // needs a forced 304 or a notification that is retried and fails again).
                        let forced304 = applied.iter().any(|a| *a == "N304" || *a == "NStale");
                        let key = if dirty && got304 && !forced304 {
                            "C25/validators-of-unfinished-update-recorded".to_string()
                        } else if dirty && !snap_req {
                            KEY_REUSE.to_string()
                        } else if gap && !snap_req {
                            KEY_GAP.to_string()
                        } else {
                            let mut a = applied.clone();
                            a.sort();
                            a.dedup();
                            format!("C25/archive-differs-from-snapshot/faults={}", a.join("+"))
                        };
                        let diff: Vec<String> = want.keys().chain(after.keys()).collect::<std::collections::BTreeSet<_>>().into_iter().filter(|u| want.get(*u) != after.get(*u)).map(|u| format!("{} server={:?} local={:?}", u, want.get(u).map(|d| d.len()), after.get(u).map(|d| d.len()))).collect();
                        return fail(key, format!("fetch {} (faults {:?}, 304={}, deltas fetched ok={}, snapshot requested={}): update reported successful for session {} serial {} but the archive differs from the server's object set at that serial: {}; local state before: {:?}", n_fetch, applied, got304, delta_ok, snap_req, n_sess, n_serial, diff.join("; "), local.as_ref().map(|l| (l.session, l.serial))));
                    }
                    match archive_state(&config, &notify) {
                        Ok(Some(st)) => {
                            if st.session != n_sess || st.serial != n_serial {
                                return fail("C25/state-differs-from-notified".into(), format!("fetch {}: notified session {} serial {}, recorded session {} serial {}", n_fetch, n_sess, n_serial, st.session, st.serial));
                            }
                        }
                        _ => return fail("C25/updated-but-state-unreadable".into(), format!("fetch {}", n_fetch)),
                    }
                    for u in &universe {
                        match repo.load_object(u) {
                            Ok(got) => {
                                if got.as_ref() != want.get(u.as_str()) {
                                    return fail("C25/load-object-differs".into(), format!("fetch {}: load_object({}) = {:?} bytes, server has {:?} bytes", n_fetch, u, got.map(|d| d.len()), want.get(u.as_str()).map(|d| d.len())));
                                }
                            }
                            Err(_) => return fail("C25/load-object-fails".into(), format!("fetch {}: load_object({}) failed on an updated repository", n_fetch, u)),
                        }
                    }
                    if delta_ok > 0 && !snap_req {
                        delta_path_updates += 1;
                        info.class("success:delta");
                    } else if snap_req {
                        info.class("success:snapshot");
                    } else if got304 {
                        info.class("success:not-modified");
                    } else {
                        info.class("success:already-current");
                    }
                    local = Some(Local { session: n_sess, serial: n_serial, objects: want });
                    dirty = false;
                    if !got304 && n_sess == server.session && n_serial == server.serial {
                        rewritten.clear();
                    }
                }
                Ok(Some(_)) => return fail("C25/non-rrdp-repository".into(), "rsync is disabled, yet a non-RRDP repository was returned".into()),
                Ok(None) => {
                    info.class("reported:not-updated");
                    if applied.is_empty() {
                        CLEAN_FETCH_FAILED.fetch_add(1, Ordering::Relaxed);
                        info.class("clean-fetch-not-updated");
                    }
                    // was the copy touched although the update is reported failed?
                    if let (Some(l), Ok(Some(a))) = (&local, archive_objects(&config, &notify)) {
                        if a != l.objects {
                            dirty = true;
                            info.class("copy-modified-by-failed-update");
                        }
                    }
                }
                Err(e) => {
                    info.class(if e.is_fatal() { "run-failed:fatal" } else { "run-failed:retry" });
                    if got304 && local.is_none() {
                        return fail(KEY_304_NOCOPY.into(), format!("fetch {}: the server answered 304 Not Modified to a client that has no local copy (no validators were sent); routinator treats this as a successful update, then fails the whole validation run (RunFailed, fatal={}) instead of reporting the repository as not updated", n_fetch, e.is_fatal()));
                    }
                    return fail(format!("C25/run-failed/faults={}", applied.join("+")), format!("fetch {}: Run::repository failed the run (fatal={}) with faults {:?}", n_fetch, e.is_fatal(), applied));
                }
            }
            Outcome { verdict: None }
        })();
        drop(res);
        drop(run);
        if let Some(v) = out.verdict {
            return v;
        }
        if dirty && known_reuse {
            // everything that follows starts from a copy a failed update has modified: the listed shape
            EXCLUDED_REUSE.fetch_add(1, Ordering::Relaxed);
            info.class("excluded_known:reuse(case cut after the failed update modified the copy)");
            break;
        }
        // restore honest files for what was overlaid
        for d in &server.deltas {
            srv.set(HOST, &server.delta_path(d.serial), Resp::ok(render_delta(&server.session, d.serial, &d.els)));
        }
        srv.set(HOST, &server.snapshot_path(), Resp::ok(server.snapshot_xml()));
    }
    info.nt(delta_path_updates >= 1 && faults_seen >= 1);
    info.class(format!("fetches:{}", n_fetch));
    Verdict::Pass
}

fn directed_gap() -> Case {
    Case {
        seed: 1,
        srv_deltas: 8,
        max_delta_count: 4,
        max_list_len: 8,
        etag: false,
        steps: vec![
            Step::Server(Op::Put { u: 0, c: 0 }),
            Step::Fetch(vec![]),
            Step::Server(Op::Put { u: 1, c: 0 }),
            Step::Server(Op::Put { u: 2, c: 0 }),
            Step::Server(Op::Put { u: 3, c: 0 }),
            Step::Fetch(vec![Fault::LGap(0)]),
        ],
    }
}

fn directed_304() -> Case {
    Case { seed: 3, srv_deltas: 8, max_delta_count: 4, max_list_len: 8, etag: false, steps: vec![Step::Server(Op::Put { u: 0, c: 0 }), Step::Fetch(vec![Fault::N304]), Step::Fetch(vec![])] }
}

/// Second manifestation of the same root cause: the residue of a refused (tampered) delta survives a later,
/// fully successful delta update.
fn directed_residue() -> Case {
    Case {
        seed: 4,
        srv_deltas: 4,
        max_delta_count: 4,
        max_list_len: 8,
        etag: false,
        steps: vec![
            Step::Server(Op::Put { u: 5, c: 0 }),
            Step::Fetch(vec![]),
            Step::Server(Op::Put { u: 5, c: 0 }),
            Step::Server(Op::Put { u: 0, c: 0 }),
            Step::Fetch(vec![Fault::DTamper(0), Fault::S404]),
            Step::Fetch(vec![]),
        ],
    }
}

fn directed_reuse() -> Case {
    Case {
        seed: 2,
        srv_deltas: 8,
        max_delta_count: 4,
        max_list_len: 8,
        etag: false,
        steps: vec![
            Step::Server(Op::Put { u: 0, c: 0 }),
            Step::Fetch(vec![]),
            Step::Server(Op::Put { u: 1, c: 0 }),
            Step::Fetch(vec![Fault::DHash(0), Fault::S404]),
            Step::Fetch(vec![Fault::N304]),
        ],
    }
}

pub fn run(ctx: &Ctx, rep: &mut Report, replay: Option<&serde_json::Value>) {
    rep.rule("stateful: RRDP publisher model over 6 URIs x 3 contents driven by generated ops (put/delete/multi-change delta, new session, serial jump, delta list trimmed, newest delta rewritten in place); 2-8 client updates per case through routinator's collector (Collector::start -> Run::repository) against the in-harness HTTPS server, each with 0-2 faults out of 33 kinds (notification 404/500/drop/malformed/304/stale/other origin; delta list truncated at either end/gapped/duplicated/hash-mutated/over-long; delta file wrong hash/altered content/malformed/foreign session/foreign serial/404/500/drop mid-body/object repeated/publish-of-existing/withdraw-of-missing; snapshot wrong hash/altered content/malformed/foreign session/foreign serial/404/500/drop/duplicate object), small rrdp-max-delta-count / rrdp-max-delta-list-len, local cache carried over; plus (interrupted) histories built around a multi-delta update in which a later delta and the snapshot fall-back both fail, followed by quiet fetches against the unchanged, honestly conditional server; oracle: repository handed out => archive == server object set at the notified session+serial (304: the local state's) byte for byte, recorded state names it, load_object agrees; non-trivial = at least one successful delta-path update and at least one applied fault in the history; distinct by serialised case");
    rep.assume("the publisher model (httpsrv::RrdpServer) renders RFC 8182 files as rpki::rrdp parses them; 'not updated' is observed as Run::repository == Ok(None) with rsync disabled; a semantic fault inside a delta/snapshot file is listed with the faulty file's own hash so that only routinator's semantic checks can notice it");
    ctx.shrink_iters.store(300, std::sync::atomic::Ordering::Relaxed);
    if let Some(v) = replay {
        let t: Tagged<Case> = serde_json::from_value(v.clone()).expect("replay");
        run_case(ctx, rep, &t.sub, &t.case, prop_all);
        return;
    }
    // directed representatives of the known findings
    run_case(ctx, rep, "directed-gap", &directed_gap(), prop_all);
    run_case(ctx, rep, "directed-reuse", &directed_reuse(), prop_all);
    run_case(ctx, rep, "directed-residue", &directed_residue(), prop_all);
    run_case(ctx, rep, "directed-304", &directed_304(), prop_all);
    run_prop_par(ctx, rep, "histories", ctx.tier.pick(600, 8000), 8, || case_strategy(ctx.tier.pick(22, 30)), prop);
    if !rep.violated() {
        run_prop_par(ctx, rep, "interrupted", ctx.tier.pick(240, 3000), 8, interrupted_strategy, prop);
    }
    let g = EXCLUDED_GAP.load(Ordering::Relaxed);
    if g > 0 {
        *rep.excluded_known.entry(KEY_GAP.into()).or_default() += g;
    }
    let r = EXCLUDED_REUSE.load(Ordering::Relaxed);
    if r > 0 {
        *rep.excluded_known.entry(KEY_REUSE.into()).or_default() += r;
    }
    let n = EXCLUDED_304.load(Ordering::Relaxed);
    if n > 0 {
        *rep.excluded_known.entry(KEY_304_NOCOPY.into()).or_default() += n;
    }
    rep.extra.insert("clean_fetches_reported_not_updated".into(), serde_json::json!(CLEAN_FETCH_FAILED.load(Ordering::Relaxed)));
}
