//! C33 A failed run never changes the served data.
//!
//! Histories of `Server::process_once` calls (through the forwarding wrapper) over an engine
//! without TALs; the data set of each call is carried by the local exceptions; each call is
//! forced to succeed or to fail (retryable / fatal, before the run or after the complete run).
//! Everything a client can observe is captured before and after every failed call.

use proptest::prelude::*;
use routinator::config::Config;
use routinator::engine::Engine;
use routinator::http::verif::Handler;
use routinator::operation::Server;
use routinator::payload::SharedHistory;
use routinator::verif::{clear_forced_outcomes, forced_runs, set_forced_outcomes, Outcome};
use rpki::rtr::server::{NotifySender, PayloadSource};
use serde::{Deserialize, Serialize};

use crate::core::*;
use crate::hist::*;
use crate::pay::*;

#[derive(Serialize, Deserialize, Clone, Debug)]
pub struct Step {
    pub set: MSet,
    /// 0 ok, 1 retry (before the run), 2 fatal (before), 3 retry after the complete run, 4 fatal after.
    pub outcome: u8,
    /// `initial` argument of process_once.
    pub initial: bool,
}

#[derive(Serialize, Deserialize, Clone, Debug)]
pub struct Case {
    pub keep: usize,
    pub steps: Vec<Step>,
}

fn outcome_of(o: u8) -> (Outcome, &'static str) {
    match o {
        0 => (Outcome::Ok, "ok"),
        1 => (Outcome::Retry, "retry"),
        2 => (Outcome::Fatal, "fatal"),
        3 => (Outcome::RetryLate, "retry-late"),
        _ => (Outcome::FatalLate, "fatal-late"),
    }
}

/// Everything observable about the served data.
#[derive(Debug, PartialEq, Clone)]
struct Obs {
    ready: bool,
    session: u64,
    serial: u32,
    created: Option<String>,
    notify: (u16, u32),
    full: (u16, u32, Vec<MItem>),
    diffs: Vec<(u32, Option<(u32, Vec<(MItem, bool)>)>)>,
    json_status: u16,
    json_etag: Option<String>,
    json_last_modified: Option<String>,
    json_body: Vec<u8>,
    json_conditional_status: u16,
    delta_reset_body: Vec<u8>,
    delta_prev_body: Vec<u8>,
}

impl Obs {
    /// `validators`: (ETag, Last-Modified) to present in the conditional request (the ones seen
    /// before the failed call); None = use this observation's own.
    fn take(http: &Http, handler: &Handler, history: &SharedHistory, validators: Option<(Option<String>, Option<String>)>) -> Obs {
        let (session, serial, created) = {
            let h = history.read();
            (h.session(), u32::from(h.serial()), h.created().map(|c| c.to_rfc3339()))
        };
        let mut diffs = Vec::new();
        let mut clients: Vec<u32> = (0..=serial.saturating_add(2)).collect();
        clients.extend([serial.wrapping_add(0x8000_0000), serial.wrapping_add(0x7FFF_FFFF), u32::MAX]);
        for c in clients {
            diffs.push((c, rtr_diff(history, session as u16, c).map(|d| (d.serial, d.actions))));
        }
        let json = http.get(handler, "/json", &[]);
        let etag = json.header("etag").map(|s| s.to_string());
        let lm = json.header("last-modified").map(|s| s.to_string());
        let (c_etag, c_lm) = validators.unwrap_or((etag.clone(), lm.clone()));
        let mut headers = Vec::new();
        if let Some(e) = c_etag {
            headers.push(("If-None-Match".to_string(), e));
        }
        if let Some(l) = c_lm {
            headers.push(("If-Modified-Since".to_string(), l));
        }
        let cond = http.get(handler, "/json", &headers);
        Obs {
            ready: history.ready(),
            session,
            serial,
            created,
            notify: rtr_notify(history),
            full: rtr_full(history),
            diffs,
            json_status: json.status,
            json_etag: etag,
            json_last_modified: lm,
            json_body: json.body(),
            json_conditional_status: cond.status,
            delta_reset_body: http.get(handler, "/json-delta", &[]).body(),
            delta_prev_body: http.get(handler, &format!("/json-delta?session={}&serial={}", session, serial.wrapping_sub(1)), &[]).body(),
        }
    }

    fn first_difference(&self, other: &Obs) -> Option<(&'static str, String)> {
        macro_rules! cmp {
            ($f:ident, $name:expr) => {
                if self.$f != other.$f {
                    return Some(($name, format!("before={:?} after={:?}", self.$f, other.$f)));
                }
            };
        }
        cmp!(ready, "ready");
        cmp!(session, "session");
        cmp!(serial, "serial");
        cmp!(notify, "rtr-notify-state");
        cmp!(full, "data-set");
        cmp!(diffs, "serial-query-answers");
        cmp!(json_etag, "etag");
        cmp!(created, "created");
        cmp!(json_last_modified, "last-modified");
        cmp!(json_status, "json-status");
        if self.json_body != other.json_body {
            return Some(("json-body", format!("before={:?} after={:?}", String::from_utf8_lossy(&self.json_body), String::from_utf8_lossy(&other.json_body))));
        }
        cmp!(json_conditional_status, "conditional-request-status");
        if self.delta_reset_body != other.delta_reset_body {
            return Some(("json-delta-reset-body", format!("before={:?} after={:?}", String::from_utf8_lossy(&self.delta_reset_body), String::from_utf8_lossy(&other.delta_reset_body))));
        }
        if self.delta_prev_body != other.delta_prev_body {
            return Some(("json-delta-body", format!("before={:?} after={:?}", String::from_utf8_lossy(&self.delta_prev_body), String::from_utf8_lossy(&other.delta_prev_body))));
        }
        None
    }
}

struct World<'a> {
    env: &'a Env,
    http: &'a Http,
    engine: &'a Engine,
}

fn judge(world: &World<'_>, case: &Case, info: &mut CaseInfo) -> Verdict {
    let config: Config = match world.env.config(&[], &["--history".into(), case.keep.to_string()]) {
        Ok(c) => c,
        Err(e) => return Verdict::Dropped(format!("config: {}", e)),
    };
    let history = SharedHistory::from_config(&config);
    let mut notify = NotifySender::new();
    let handler = world.http.handler(&config, &history, &notify);
    let mut l1 = notify.subscribe();
    let mut l2 = notify.subscribe();
    let mut failed_after_change = false;
    let mut failed_with_pending = false;
    for (i, step) in case.steps.iter().enumerate() {
        let (outcome, oname) = outcome_of(step.outcome);
        let exceptions = exceptions_for(&step.set);
        if outcome == Outcome::Ok {
            set_forced_outcomes(vec![Outcome::Ok], Outcome::Ok, usize::MAX);
            let res = Server::verif_process_once(&config, world.engine, &history, &mut notify, &exceptions, step.initial);
            clear_forced_outcomes();
            if res.is_err() {
                return Verdict::Dropped("unforced_run_failed".into());
            }
            info.class("call=ok");
            continue;
        }
        // ---- a failing call ----
        let pending_before = poll_notification(&mut l1);
        let mut fresh = notify.subscribe();
        let before = Obs::take(world.http, &handler, &history, None);
        set_forced_outcomes(vec![outcome], Outcome::Ok, usize::MAX);
        let res = Server::verif_process_once(&config, world.engine, &history, &mut notify, &exceptions, step.initial);
        let consulted = forced_runs();
        clear_forced_outcomes();
        if consulted != 1 || res.is_ok() {
            panic!("forced outcome hook not effective: consulted {} times, result ok={}", consulted, res.is_ok());
        }
        let retry = res.as_ref().err().map(|e| e.should_retry()).unwrap_or(false);
        if retry != matches!(outcome, Outcome::Retry | Outcome::RetryLate) {
            panic!("forced outcome {} produced should_retry={}", oname, retry);
        }
        let after = Obs::take(world.http, &handler, &history, Some((before.json_etag.clone(), before.json_last_modified.clone())));
        info.class(format!("call={}", oname));
        info.class(if before.ready { "failed_with_data_served" } else { "failed_before_first_success" });
        if before.serial >= 1 {
            failed_after_change = true;
        }
        if pending_before {
            failed_with_pending = true;
            info.class("failed_with_pending_notification");
        }
        if let Some((field, msg)) = before.first_difference(&after) {
            return Verdict::fail(format!("C33/state-changed/{}/outcome={}", field, oname), format!("call {} ({}, initial={}): {}", i, oname, step.initial, msg));
        }
        if poll_notification(&mut fresh) {
            return Verdict::fail(format!("C33/notification-sent/outcome={}", oname), format!("call {} ({}): a receiver subscribed just before the failed call has a notification", i, oname));
        }
        let pending_after = poll_notification(&mut l2);
        if pending_after != pending_before {
            return Verdict::fail(format!("C33/pending-notifications-changed/outcome={}", oname), format!("call {} ({}): twin receivers saw pending={} before and pending={} after the failed call", i, oname, pending_before, pending_after));
        }
    }
    info.nt(failed_after_change);
    if failed_with_pending && failed_after_change {
        info.class("nt:pending+changed");
    }
    Verdict::Pass
}

pub fn case_strategy(max_calls: usize) -> impl Strategy<Value = Case> {
    (
        prop::sample::select(vec![1usize, 2, 10]),
        history_strategy(2, max_calls, 6, 25),
        prop::collection::vec((prop_oneof![5 => Just(0u8), 4 => 1u8..=4], 0u8..10), max_calls),
    )
        .prop_map(|(keep, sets, meta)| {
            let steps = sets
                .into_iter()
                .zip(meta)
                .enumerate()
                .map(|(i, (set, (outcome, ini)))| Step { set, outcome, initial: if i == 0 { ini != 0 } else { ini == 0 } })
                .collect();
            Case { keep, steps }
        })
}

pub fn run(ctx: &Ctx, rep: &mut Report, replay: Option<&serde_json::Value>) {
    rep.rule("histories of 2..=10 (thorough 2..=30) Server::process_once calls over an engine without TALs, the data set of each call (<= 6 origins/router keys, 25 % repeats) carried by local exceptions, history-size in {1,2,10}; each call is forced (verif hook at the top / end of ValidationReport::process) to succeed (5/9) or to fail: retryable or fatal, before the run or after the complete run; `initial` mostly true for the first call only, sometimes elsewhere; before and after every failed call the observable state is captured: ready, session, serial, created, RTR notify state, full data set, answers to serial queries for every serial 0..=S+2 and wrap-around serials, /json status+ETag+Last-Modified+body, conditional /json with the pre-failure validators, /json-delta reset and delta documents; notifications: a receiver subscribed just before the failed call must stay empty, twin long-lived receivers must show the same pending state before and after; non-trivial = a failed call when serial >= 1; distinct by serialised case");
    rep.assume("forced failures come from the verif hook in ValidationReport::process (Retry/Fatal before the engine run, RetryLate/FatalLate after the complete run); genuine engine failures are produced by the initial-run leg (module c33i) over generated RPKI repositories");
    rep.assume("last_update_start (shown by /status) legitimately changes when a run starts and is not part of the compared state");
    init_process();
    let env = Env::new(ctx.scratch());
    let http = Http::new();
    let engine_config = env.config(&[], &[]).expect("engine config");
    let mut engine = Engine::new(&engine_config, true).expect("engine");
    engine.ignite().expect("ignite");
    let world = World { env: &env, http: &http, engine: &engine };
    let prop = |case: &Case, info: &mut CaseInfo| judge(&world, case, info);
    if let Some(v) = replay {
        let t: Tagged<serde_json::Value> = serde_json::from_value(v.clone()).expect("replay");
        if t.sub == "initial" {
            crate::c33i::run(ctx, rep, replay);
            return;
        }
        let case: Case = serde_json::from_value(t.case).expect("case");
        run_case(ctx, rep, &t.sub, &case, prop);
        return;
    }
    run_prop(ctx, rep, "calls", ctx.tier.pick(15_000, 150_000), case_strategy(ctx.tier.pick(10, 30)), prop);
    clear_forced_outcomes();
    if !rep.violated() {
        crate::c33i::run(ctx, rep, None);
    }
}
