//! C14 Serials advance once per change and retained history is bounded.
//!
//! The history-size value goes through routinator's own option parsers (command line or config
//! file); a generated sequence of validation results (changing or not) is installed; the serial
//! is compared with the number of changes, and the number of retained change sets is observed
//! exactly: every change set ever pushed is obtained once as the history's own `Arc` (the answer
//! to "one behind") and kept as a `Weak` — it is retained iff the `Weak` is still alive.

use std::sync::{Arc, Weak};

use proptest::prelude::*;
use routinator::payload::{PayloadDelta, SharedHistory};
use rpki::rtr::Serial;
use serde::{Deserialize, Serialize};

use crate::core::*;
use crate::hist::*;
use crate::pay::*;

pub const KEY_ZERO: &str = "C14/retained-exceeds-history-size/history-size=0";

#[derive(Serialize, Deserialize, Clone, Debug)]
pub struct Case {
    pub keep: usize,
    /// history-size given in the config file (`history-size = N`) instead of `--history N`.
    pub via_file: bool,
    pub sets: Vec<MSet>,
    /// Judge the retention bound even for the known-finding shape (directed representative only).
    #[serde(default)]
    pub known: bool,
}

#[derive(Serialize, Deserialize, Clone, Debug)]
pub struct LongCase {
    pub keep: usize,
    pub changes: u32,
}

fn bound(keep: usize) -> usize {
    keep.max(1)
}

struct Tracker {
    weaks: Vec<Weak<PayloadDelta>>,
    /// Index of the oldest change set that was still alive at the last count (eviction is FIFO,
    /// but nothing is assumed: everything from here on is re-counted).
    floor: usize,
}

impl Tracker {
    fn new() -> Self {
        Tracker { weaks: Vec::new(), floor: 0 }
    }
    /// Registers the change set leading to the current serial. Err = cannot be observed.
    fn push(&mut self, history: &SharedHistory, serial: u32) -> Result<(), String> {
        let arc = history.read().delta_since(Serial::from(serial.wrapping_sub(1))).ok_or("no change set for the previous serial")?;
        if Arc::strong_count(&arc) < 2 {
            return Err("answer for the previous serial is not the retained change set".into());
        }
        self.weaks.push(Arc::downgrade(&arc));
        Ok(())
    }
    fn retained(&mut self) -> usize {
        // all older ones were dead at an earlier count and a dropped Arc never comes back
        while self.floor < self.weaks.len() && self.weaks[self.floor].strong_count() == 0 {
            self.floor += 1;
        }
        self.weaks[self.floor..].iter().filter(|w| w.strong_count() > 0).count()
    }
}

fn judge(env: &Env, kit: &crate::fmtx::Kit, case: &Case, excl: &std::cell::Cell<u64>, info: &mut CaseInfo) -> Verdict {
    let keep = case.keep;
    let config = if case.via_file { env.config(&[format!("history-size = {}", keep), "enable-aspa = true".to_string()], &[]) } else { env.config(&[], &["--history".into(), keep.to_string(), "--enable-aspa".into()]) };
    let config = match config {
        Ok(c) => c,
        Err(_) => return Verdict::Dropped("history_size_not_accepted".into()),
    };
    if config.history_size != keep {
        return Verdict::fail("C14/config-value-changed", format!("history-size {} read as {}", keep, config.history_size));
    }
    info.class(format!("keep={}", keep));
    info.class(if case.via_file { "via=file" } else { "via=cli" });
    let judge_retention = keep != 0 || case.known || !is_listed_known("C14", KEY_ZERO);
    let history = SharedHistory::from_config(&config);
    let mut tracker = Tracker::new();
    let mut expected: u32 = 0;
    let mut prev: Option<&MSet> = None;
    let mut max_retained = 0usize;
    let mut unchanged_runs = 0;
    for (step, set) in case.sets.iter().enumerate() {
        let changed = prev.map(|p| p != set).unwrap_or(false);
        install_full(kit, &history, &config, set);
        if changed {
            expected += 1;
        } else if prev.is_some() {
            unchanged_runs += 1;
        }
        if changed && prev.map(|p| p.origins == set.origins && p.keys == set.keys).unwrap_or(false) {
            info.class("aspa_only_change");
        }
        prev = Some(set);
        let got = serial_of(&history);
        let (_, rtr_serial) = rtr_notify(&history);
        if got != expected || rtr_serial != expected {
            let key = if changed { "C14/serial-not-advanced-by-one" } else if step == 0 { "C14/first-serial-not-0" } else { "C14/serial-moved-without-change" };
            return Verdict::fail(key, format!("step {} (changed={}): serial {} (RTR notify {}) expected {}", step, changed, got, rtr_serial, expected));
        }
        match served_set(&history) {
            Some(Ok(s)) if s == *set => {}
            other => return Verdict::fail("C14/served-set-mismatch", format!("step {}: served {:?} expected {:?}", step, other, set)),
        }
        if changed {
            if let Err(e) = tracker.push(&history, expected) {
                return Verdict::Dropped(format!("untrackable: {}", e));
            }
        }
        let retained = tracker.retained();
        max_retained = max_retained.max(retained);
        // black-box lower bound as a cross-check: answering distance d needs d change sets
        let mut max_dist = 0u32;
        for d in 1..=expected.min(keep as u32 + 3) {
            if history.read().delta_since(Serial::from(expected - d)).is_some() {
                max_dist = d;
            }
        }
        if !judge_retention {
            if retained > bound(keep) {
                excl.set(excl.get() + 1);
            }
            continue;
        }
        if retained > bound(keep) {
            return Verdict::fail(
                format!("C14/retained-exceeds-history-size/history-size={}", keep),
                format!("step {}: {} change sets retained after {} changes with history-size {} (bound {})", step, retained, expected, keep, bound(keep)),
            );
        }
        if max_dist as usize > bound(keep) {
            return Verdict::fail(
                format!("C14/served-distance-exceeds-history-size/history-size={}", keep),
                format!("step {}: a client {} serials behind is answered with history-size {}", step, max_dist, keep),
            );
        }
    }
    let beyond = (expected as usize).saturating_sub(bound(keep));
    info.nt(beyond >= 3 && unchanged_runs >= 1);
    info.class(if beyond >= 3 { "overflow>=3" } else if beyond >= 1 { "overflow=1-2" } else { "not_full" });
    info.class(if unchanged_runs > 0 { "has_unchanged_runs" } else { "all_changing" });
    info.class(format!("max_retained={}", if max_retained > 5 { ">5".to_string() } else { max_retained.to_string() }));
    Verdict::Pass
}

fn origin(a: u8) -> MItem {
    MItem::Origin(MOrigin::new(std::net::IpAddr::V4(std::net::Ipv4Addr::new(10, a, 0, 0)), 16, None, 64496))
}

/// Long alternating history: retention must stay bounded over thousands of changes.
fn judge_long(env: &Env, case: &LongCase, info: &mut CaseInfo) -> Verdict {
    let keep = case.keep;
    let config = match env.config(&[], &["--history".into(), keep.to_string(), "--enable-aspa".into()]) {
        Ok(c) => c,
        Err(_) => return Verdict::Dropped("history_size_not_accepted".into()),
    };
    info.class(format!("long/keep={}", keep));
    let history = SharedHistory::from_config(&config);
    let sets = [MSet::from_items([origin(1)]), MSet::from_items([origin(1), origin(2)]), MSet::from_items([origin(3)])];
    let ex: Vec<_> = sets.iter().map(exceptions_for).collect();
    let mut tracker = Tracker::new();
    history.update(routinator::payload::ValidationReport::new(&config), &ex[0], routinator::metrics::Metrics::new());
    history.mark_update_done();
    for i in 1..=case.changes {
        // every third run repeats the data set: no change
        for rep in 0..(if i % 3 == 0 { 2 } else { 1 }) {
            let changed = history.update(routinator::payload::ValidationReport::new(&config), &ex[(i % 3) as usize], routinator::metrics::Metrics::new());
            history.mark_update_done();
            let _ = (rep, changed);
        }
        let got = serial_of(&history);
        if got != i {
            return Verdict::fail("C14/serial-not-advanced-by-one", format!("after {} changes (with repeats) serial is {}", i, got));
        }
        if let Err(e) = tracker.push(&history, i) {
            return Verdict::Dropped(format!("untrackable: {}", e));
        }
        if i % 1024 == 0 || i + 8 >= case.changes || (i as usize) <= keep + 8 && i < 64 {
            let retained = tracker.retained();
            if retained > bound(keep) {
                return Verdict::fail(format!("C14/retained-exceeds-history-size/history-size={}", keep), format!("{} change sets retained after {} changes with history-size {}", retained, i, keep));
            }
        }
    }
    info.nt(case.changes as usize >= bound(keep) + 3);
    Verdict::Pass
}

pub fn case_strategy(max_len: usize) -> impl Strategy<Value = Case> {
    (prop::sample::select(vec![0usize, 1, 2, 5, 65535]), any::<bool>(), prop_oneof![2 => history_strategy(1, max_len, 6, 40), 1 => history_strategy_aspa(1, max_len, 4, 40)]).prop_map(|(keep, via_file, sets)| Case { keep, via_file, sets, known: false })
}

pub fn run(ctx: &Ctx, rep: &mut Report, replay: Option<&serde_json::Value>) {
    rep.rule("sequences of 1..=60 (thorough 1..=200) validation results (40 % repeat the previous data set) over <= 6 origins/router keys (a third of the sequences additionally carry ASPAs of two customers that are announced / updated / withdrawn, so some changes are ASPA-only) x history-size in {0,1,2,5,65535} given on the command line (--history) or in the config file (history-size), both read by routinator's parsers; serial checked after every result against the number of changes; retained change sets counted exactly through Weak references to the history's own Arc<PayloadDelta> (bound max(history-size,1)) plus the black-box served-distance bound; long alternating histories (2 000 changes quick; 70 000 for history-size 65535 in thorough) check the bound far beyond the limit; non-trivial = >= 3 changing results beyond the retention limit and >= 1 unchanged result; distinct by serialised case");
    rep.assume("the change set answered for 'one serial behind' is the retained Arc itself (checked per step via strong_count >= 2, otherwise the case is dropped)");
    rep.assume("history-size values > 65535 are accepted on the command line only and pre-allocate the queue; they are not explored (allocation of the queue, not retention)");
    let env = Env::new(ctx.scratch());
    let excl = std::cell::Cell::new(0u64);
    let kit = crate::fmtx::Kit::new();
    let prop = |case: &Case, info: &mut CaseInfo| judge(&env, &kit, case, &excl, info);
    let prop_long = |case: &LongCase, info: &mut CaseInfo| judge_long(&env, case, info);
    if let Some(v) = replay {
        let t: Tagged<serde_json::Value> = serde_json::from_value(v.clone()).expect("replay");
        match t.sub.as_str() {
            "long" => run_case(ctx, rep, "long", &serde_json::from_value::<LongCase>(t.case).expect("case"), prop_long),
            sub => run_case(ctx, rep, sub, &serde_json::from_value::<Case>(t.case).expect("case"), prop),
        }
        return;
    }
    // directed representative of the known finding: history-size 0 never evicts
    let rep_sets: Vec<MSet> = (0..=3u8).map(|i| MSet::from_items((0..=i).map(origin))).collect();
    run_case(ctx, rep, "known-history-size-0", &Case { keep: 0, via_file: false, sets: rep_sets, known: true }, prop);
    run_prop(ctx, rep, "history", ctx.tier.pick(10_000, 40_000), case_strategy(ctx.tier.pick(60, 200)), prop);
    let mut longs = vec![LongCase { keep: 1, changes: 2_000 }, LongCase { keep: 2, changes: 2_000 }, LongCase { keep: 5, changes: 2_000 }];
    if ctx.tier == Tier::Thorough {
        longs.push(LongCase { keep: 65535, changes: 70_000 });
        longs.push(LongCase { keep: 5, changes: 100_000 });
    }
    for l in &longs {
        if rep.violated() {
            break;
        }
        run_case(ctx, rep, "long", l, prop_long);
    }
    if excl.get() > 0 {
        *rep.excluded_known.entry(KEY_ZERO.to_string()).or_default() += excl.get();
    }
}
