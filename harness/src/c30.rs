//! C30 Remote URIs map to confined, distinct local paths.
//!
//! Pairs of rsync / https URIs from the grammar `rpki::uri::{Rsync, Https}` accept, the second a
//! small edit of the first, are fed to the forwarding wrappers of routinator's private path
//! functions (trust anchor store path, stored point path with and without rpkiNotify, rsync module
//! and object path, RRDP archive path). Oracle: every path, lexically normalised, lies below the
//! cache directory; two URIs that are not equivalent (rpki's `PartialEq`: equal after
//! lower-casing scheme and authority) never map to the same path. The thorough tier additionally
//! performs real operations (engine run with such URIs as SIA of two trust anchors over the fake
//! rsync transport, then `Engine::dump`) and walks the directories.

use std::collections::BTreeMap;
use std::net::{IpAddr, Ipv4Addr};
use std::path::{Component, Path, PathBuf};
use std::str::FromStr;

use proptest::prelude::*;
use rpki::repository::tal::TalUri;
use rpki::uri;
use serde::{Deserialize, Serialize};

use crate::core::*;
use crate::crash::list_tree;
use crate::erpki::{config_for, empty_exceptions, own_res, read_stored_file, run_config, Cfg, WorldPaths};
use crate::rpkigen as gen;

/// Every character rpki's `check_uri_ascii` accepts, except '/'.
const LEGAL: &str = "!$%&'()*+,-.0123456789:;=ABCDEFGHIJKLMNOPQRSTUVWXYZ_abcdefghijklmnopqrstuvwxyz~";

const SPECIAL_SEGS: &[&str] = &[
    "a..b", "...", "..a", "a..", ".a", "a.", "....", "%2e%2e", "%2E%2E", "%2e", ".%2e", "%2e.", "%2f", "%2F..%2F", "..%2f", "..;", ";..", "..:", "%00", "a%00b", "%5c..%5c", "~", "!", "$", "&", "'", "(", ")", "*", "+", ",", ";", "=", ":", "-", "_", "a:b",
    "rsync:", "https:", "tmp", "rsync", "rrdp", "ta", "stored", "status.bin", "CON", "x.mft", "X.MFT", "x.cer", "-rf", "--",
];

const SPECIAL_HOSTS: &[&str] = &["a..b", "...", "..a", "a..", "%2e%2e", "localhost", "LOCALHOST", "127.0.0.1", "0", "-", "xn--a", "a.b.", "a.b..", "tmp", "rsync", "rrdp", "ta", "~", "a:873", "a:", ":873", "a:b:c", "EXAMPLE.com", "example.COM."];
/// Only `Https` accepts these (no checks on the authority at all).
const HTTPS_ONLY_HOSTS: &[&str] = &["", "..", ".", "..:443"];

#[derive(Serialize, Deserialize, Clone, Copy, Debug, PartialEq, Eq)]
pub enum Kind {
    Rsync,
    Https,
}

#[derive(Serialize, Deserialize, Clone, Debug)]
pub struct Pair {
    pub kind: Kind,
    pub a: String,
    pub b: String,
    pub edit: String,
}

fn legal_string(max: usize) -> impl Strategy<Value = String> {
    let chars: Vec<char> = LEGAL.chars().collect();
    prop::collection::vec(prop::sample::select(chars), 1..=max).prop_map(|v| v.into_iter().collect::<String>())
}

fn segment() -> impl Strategy<Value = String> {
    prop_oneof![
        3 => prop::sample::select(SPECIAL_SEGS).prop_map(|s| s.to_string()),
        4 => legal_string(10),
        3 => "[a-zA-Z0-9]{1,8}",
        1 => "[a-z]{1,5}\\.(mft|cer|roa|crl)",
    ]
    .prop_filter("dot segment", |s| s != "." && s != "..")
}

fn host(kind: Kind) -> BoxedStrategy<String> {
    let plain = (prop::collection::vec("[a-zA-Z0-9-]{1,8}", 1..4), prop::bool::weighted(0.15), prop::option::weighted(0.15, 0u16..=65535)).prop_map(|(labels, dot, port)| {
        let mut h = labels.join(".");
        if dot {
            h.push('.');
        }
        if let Some(p) = port {
            h.push_str(&format!(":{}", p));
        }
        h
    });
    let special = prop::sample::select(SPECIAL_HOSTS).prop_map(|s| s.to_string());
    match kind {
        Kind::Rsync => prop_oneof![6 => plain, 2 => special, 1 => legal_string(8)].prop_filter("dot host", |s| s != "." && s != "..").boxed(),
        Kind::Https => prop_oneof![6 => plain, 2 => special, 1 => legal_string(8), 1 => prop::sample::select(HTTPS_ONLY_HOSTS).prop_map(|s| s.to_string())].boxed(),
    }
}

fn scheme(kind: Kind) -> impl Strategy<Value = String> {
    let base = match kind {
        Kind::Rsync => "rsync",
        Kind::Https => "https",
    };
    prop::collection::vec(prop::bool::weighted(0.1), 5).prop_map(move |up| base.chars().zip(up).map(|(c, u)| if u { c.to_ascii_uppercase() } else { c }).collect::<String>())
}

/// A syntactically valid base URI.
fn base_uri(kind: Kind) -> impl Strategy<Value = String> {
    let depth = prop_oneof![8 => 0usize..=5, 1 => 6usize..=40];
    (scheme(kind), host(kind), depth.prop_flat_map(|d| prop::collection::vec(segment(), d + 1..=d + 1)), prop::bool::weighted(0.08)).prop_map(move |(scheme, host, segs, trailing)| {
        let mut s = format!("{}://{}/{}", scheme, host, segs.join("/"));
        if segs.len() == 1 && kind == Kind::Rsync {
            // module only: rsync needs the slash after the module
            s.push('/');
            s.push_str("f");
        }
        if trailing {
            s.push('/');
        }
        s
    })
}

#[derive(Clone, Debug)]
enum Edit {
    HostCase(usize),
    SchemeCase(usize),
    PathCase(usize),
    Replace(usize, char),
    Insert(usize, char),
    Delete(usize),
    MoveSlash(usize),
    DropSegment(usize),
    DupSegment(usize),
    HostDot,
    HostPort,
    Percent(usize),
    Unpercent,
    Identity,
}

fn edit() -> impl Strategy<Value = Edit> {
    let chars: Vec<char> = format!("{}/", LEGAL).chars().collect();
    let ch = prop::sample::select(chars);
    prop_oneof![
        3 => any::<usize>().prop_map(Edit::HostCase),
        1 => any::<usize>().prop_map(Edit::SchemeCase),
        3 => any::<usize>().prop_map(Edit::PathCase),
        3 => (any::<usize>(), ch.clone()).prop_map(|(i, c)| Edit::Replace(i, c)),
        2 => (any::<usize>(), ch).prop_map(|(i, c)| Edit::Insert(i, c)),
        2 => any::<usize>().prop_map(Edit::Delete),
        3 => any::<usize>().prop_map(Edit::MoveSlash),
        1 => any::<usize>().prop_map(Edit::DropSegment),
        1 => any::<usize>().prop_map(Edit::DupSegment),
        1 => Just(Edit::HostDot),
        1 => Just(Edit::HostPort),
        2 => any::<usize>().prop_map(Edit::Percent),
        1 => Just(Edit::Unpercent),
        1 => Just(Edit::Identity),
    ]
}

fn flip(c: char) -> char {
    if c.is_ascii_uppercase() {
        c.to_ascii_lowercase()
    } else {
        c.to_ascii_uppercase()
    }
}

/// Applies an edit to a URI string; None if it does not apply.
fn apply(uri: &str, e: &Edit) -> Option<(String, &'static str)> {
    let scheme_end = uri.find("://")? + 3;
    let rest = &uri[scheme_end..];
    let host_end = scheme_end + rest.find('/').unwrap_or(rest.len());
    let (scheme, host, path) = (&uri[..scheme_end], &uri[scheme_end..host_end], &uri[host_end..]);
    let alpha = |s: &str| s.char_indices().filter(|(_, c)| c.is_ascii_alphabetic()).map(|(i, _)| i).collect::<Vec<_>>();
    let set = |s: &str, i: usize, f: &dyn Fn(char) -> String| -> String { s.char_indices().map(|(j, c)| if j == i { f(c) } else { c.to_string() }).collect() };
    match e {
        Edit::HostCase(n) => {
            let idx = alpha(host);
            let i = *idx.get(n % idx.len().max(1))?;
            Some((format!("{}{}{}", scheme, set(host, i, &|c| flip(c).to_string()), path), "host-case"))
        }
        Edit::SchemeCase(n) => {
            let i = n % 5;
            Some((format!("{}{}{}", set(scheme, i, &|c| flip(c).to_string()), host, path), "scheme-case"))
        }
        Edit::PathCase(n) => {
            let idx = alpha(path);
            let i = *idx.get(n % idx.len().max(1))?;
            Some((format!("{}{}{}", scheme, host, set(path, i, &|c| flip(c).to_string())), "path-case"))
        }
        Edit::Replace(n, ch) => {
            let tail = format!("{}{}", host, path);
            let i = n % tail.len().max(1);
            Some((format!("{}{}", scheme, set(&tail, i, &|_| ch.to_string())), "replace-char"))
        }
        Edit::Insert(n, ch) => {
            let mut tail = format!("{}{}", host, path);
            let i = n % (tail.len() + 1);
            tail.insert(i, *ch);
            Some((format!("{}{}", scheme, tail), "insert-char"))
        }
        Edit::Delete(n) => {
            let mut tail = format!("{}{}", host, path);
            if tail.is_empty() {
                return None;
            }
            let i = n % tail.len();
            tail.remove(i);
            Some((format!("{}{}", scheme, tail), "delete-char"))
        }
        Edit::MoveSlash(n) => {
            // swap a '/' with its right (or left) neighbour: the segment boundary moves by one
            let tail: Vec<char> = format!("{}{}", host, path).chars().collect();
            let slashes: Vec<usize> = tail.iter().enumerate().filter(|(_, c)| **c == '/').map(|(i, _)| i).collect();
            let i = *slashes.get(n % slashes.len().max(1))?;
            let mut t = tail.clone();
            if n % 2 == 0 && i + 1 < t.len() {
                t.swap(i, i + 1);
            } else if i > 0 {
                t.swap(i, i - 1);
            } else {
                return None;
            }
            Some((format!("{}{}", scheme, t.into_iter().collect::<String>()), "move-boundary"))
        }
        Edit::DropSegment(n) => {
            let segs: Vec<&str> = path.split('/').collect();
            if segs.len() < 3 {
                return None;
            }
            let i = 1 + n % (segs.len() - 1);
            let mut s = segs.clone();
            s.remove(i);
            Some((format!("{}{}{}", scheme, host, s.join("/")), "drop-segment"))
        }
        Edit::DupSegment(n) => {
            let segs: Vec<&str> = path.split('/').collect();
            if segs.len() < 2 {
                return None;
            }
            let i = 1 + n % (segs.len() - 1);
            let mut s = segs.clone();
            s.insert(i, segs[i]);
            Some((format!("{}{}{}", scheme, host, s.join("/")), "dup-segment"))
        }
        Edit::HostDot => Some((format!("{}{}.{}", scheme, host, path), "host-trailing-dot")),
        Edit::HostPort => Some((format!("{}{}:873{}", scheme, host, path), "host-port")),
        Edit::Percent(n) => {
            let idx: Vec<usize> = path.char_indices().filter(|(_, c)| *c != '/').map(|(i, _)| i).collect();
            let i = *idx.get(n % idx.len().max(1))?;
            Some((format!("{}{}{}", scheme, host, set(path, i, &|c| format!("%{:02x}", c as u32))), "percent-encode"))
        }
        Edit::Unpercent => {
            let lower = path.to_ascii_lowercase();
            let i = lower.find("%2e")?;
            Some((format!("{}{}{}.{}", scheme, host, &path[..i], &path[i + 3..]), "percent-decode-dot"))
        }
        Edit::Identity => Some((uri.to_string(), "identity")),
    }
}

fn parses(kind: Kind, s: &str) -> bool {
    match kind {
        Kind::Rsync => uri::Rsync::from_str(s).is_ok(),
        Kind::Https => uri::Https::from_str(s).is_ok(),
    }
}

fn pair(kind: Kind) -> impl Strategy<Value = Pair> {
    (base_uri(kind), prop::collection::vec(edit(), 4)).prop_filter_map("base URI rejected by rpki", move |(a, edits)| {
        if !parses(kind, &a) {
            return None;
        }
        for e in &edits {
            if let Some((b, name)) = apply(&a, e) {
                if parses(kind, &b) && (b != a || name == "identity") {
                    return Some(Pair { kind, a, b, edit: name.to_string() });
                }
            }
        }
        Some(Pair { kind, b: a.clone(), a, edit: "identity".to_string() })
    })
}

/// Lexical normalisation: `.` and empty components dropped, `..` resolved; a `..` that would
/// climb above the root is kept as a marker component.
pub fn normalise(p: &Path) -> PathBuf {
    let mut out: Vec<std::ffi::OsString> = Vec::new();
    let mut root = false;
    for c in p.components() {
        match c {
            Component::RootDir => root = true,
            Component::CurDir => {}
            Component::ParentDir => {
                if out.pop().is_none() {
                    out.push("<above-root>".into());
                }
            }
            Component::Normal(s) => out.push(s.to_os_string()),
            Component::Prefix(_) => {}
        }
    }
    let mut res = if root { PathBuf::from("/") } else { PathBuf::new() };
    for c in out {
        res.push(c);
    }
    res
}

/// The fixture all path functions are evaluated against.
pub struct Fixture {
    _scratch: tempfile::TempDir,
    pub cache: PathBuf,
    config: routinator::config::Config,
    store: routinator::store::Store,
    notify: uri::Https,
    manifest: uri::Rsync,
}

impl Fixture {
    pub fn new(ctx: &Ctx) -> Fixture {
        let scratch = ctx.scratch();
        let cache = scratch.path().join("cache");
        std::fs::create_dir_all(&cache).unwrap();
        let mut config = routinator::config::Config::default_with_paths(scratch.path().join("routinator.conf"), cache.clone());
        config.rsync_command = "true".into();
        config.rsync_args = Some(vec![]);
        config.no_rir_tals = true;
        let store = routinator::store::Store::new(&config).expect("store");
        Fixture { _scratch: scratch, cache, config, store, notify: uri::Https::from_str("https://rrdp.example.net/notify.xml").unwrap(), manifest: uri::Rsync::from_str("rsync://rsync.example.net/repo/ca/ca.mft").unwrap() }
    }
}

/// (role, equivalence class key of the URI for that role or None = use rpki's `==`, path)
struct RolePath {
    role: &'static str,
    /// URIs whose `class` is equal may share the path of this role
    class: String,
    path: PathBuf,
}

fn canon_rsync(u: &uri::Rsync) -> String {
    format!("rsync://{}/{}/{}", u.canonical_authority(), u.module_name(), u.path())
}
fn canon_https(u: &uri::Https) -> String {
    format!("https://{}{}", u.canonical_authority(), u.path())
}

fn role_paths(fx: &Fixture, kind: Kind, s: &str) -> Result<Vec<RolePath>, String> {
    let mut res = Vec::new();
    match kind {
        Kind::Rsync => {
            let u = uri::Rsync::from_str(s).map_err(|e| e.to_string())?;
            let class = canon_rsync(&u);
            let file_like = !u.path_is_dir();
            res.push(RolePath {
                role: "rsync-module",
                class: format!("rsync://{}/{}/", u.canonical_authority(), u.module_name()),
                path: routinator::collector::verif::rsync_module_path(&fx.config, &u).ok_or("rsync_module_path unavailable")?,
            });
            if file_like {
                res.push(RolePath { role: "ta-rsync", class: class.clone(), path: fx.store.verif_ta_path(&TalUri::Rsync(u.clone())) });
                res.push(RolePath { role: "point-rsync", class: class.clone(), path: fx.store.verif_point_path(None, &u) });
                res.push(RolePath { role: "point-rrdp", class: class.clone(), path: fx.store.verif_point_path(Some(&fx.notify), &u) });
                res.push(RolePath { role: "rsync-object", class, path: routinator::collector::verif::rsync_uri_path(&fx.config, &u).ok_or("rsync_uri_path unavailable")? });
            }
        }
        Kind::Https => {
            let u = uri::Https::from_str(s).map_err(|e| e.to_string())?;
            let class = canon_https(&u);
            res.push(RolePath { role: "ta-https", class: class.clone(), path: fx.store.verif_ta_path(&TalUri::Https(u.clone())) });
            res.push(RolePath { role: "point-of-rrdp-repository", class: class.clone(), path: fx.store.verif_point_path(Some(&u), &fx.manifest) });
            res.push(RolePath { role: "rrdp-archive", class, path: routinator::collector::verif::rrdp_repository_path(&fx.config, &u).ok_or("rrdp_repository_path unavailable")? });
        }
    }
    Ok(res)
}

fn dotlike(s: &str) -> bool {
    let l = s.to_ascii_lowercase();
    l.contains("..") || l.contains("%2e") || l.contains("/.") || l.contains("%2f")
}

fn prop_paths(fx: &Fixture, p: &Pair, info: &mut CaseInfo) -> Verdict {
    let equivalent = match p.kind {
        Kind::Rsync => match (uri::Rsync::from_str(&p.a), uri::Rsync::from_str(&p.b)) {
            (Ok(a), Ok(b)) => {
                // rpki's notion and the documented one must agree (guards the oracle itself)
                let eq = a == b;
                if eq != (canon_rsync(&a) == canon_rsync(&b)) {
                    return Verdict::Dropped("rpki_eq_differs_from_canonical_form".into());
                }
                eq
            }
            _ => return Verdict::Dropped("unparsable".into()),
        },
        Kind::Https => match (uri::Https::from_str(&p.a), uri::Https::from_str(&p.b)) {
            (Ok(a), Ok(b)) => {
                let eq = a == b;
                if eq != (canon_https(&a) == canon_https(&b)) {
                    return Verdict::Dropped("rpki_eq_differs_from_canonical_form".into());
                }
                eq
            }
            _ => return Verdict::Dropped("unparsable".into()),
        },
    };
    info.class(format!("edit={}", p.edit));
    info.class(format!("kind={:?}", p.kind));
    info.class(if equivalent { "equivalent" } else { "not_equivalent" });
    let depth = p.a.matches('/').count().saturating_sub(3);
    info.class(if depth > 8 { "depth>8" } else { "depth<=8" });
    if dotlike(&p.a) || dotlike(&p.b) {
        info.class("dot_like_segment");
    }
    info.nt(p.edit == "host-case" || p.edit == "path-case" || dotlike(&p.a) || dotlike(&p.b));
    let (ra, rb) = match (role_paths(fx, p.kind, &p.a), role_paths(fx, p.kind, &p.b)) {
        (Ok(a), Ok(b)) => (a, b),
        (Err(e), _) | (_, Err(e)) => return Verdict::Dropped(format!("wrapper:{}", truncate(&e, 60))),
    };
    let cache = normalise(&fx.cache);
    for (uri, r) in ra.iter().map(|r| (&p.a, r)).chain(rb.iter().map(|r| (&p.b, r))) {
        let n = normalise(&r.path);
        if !(n.starts_with(&cache) && n != cache) {
            return Verdict::fail(format!("C30/escapes-cache/role={}", r.role), format!("URI {:?}: {} path {:?} normalises to {:?}, which is not below the cache directory {:?}", uri, r.role, r.path, n, cache));
        }
    }
    // distinctness: any two paths (same or different role) of the two URIs
    for x in &ra {
        for y in &rb {
            if normalise(&x.path) == normalise(&y.path) && !(x.role == y.role && x.class == y.class) {
                let role = if x.role == y.role { format!("role={}", x.role) } else { format!("roles={}+{}", x.role, y.role) };
                return Verdict::fail(
                    format!("C30/shared-path/{}/edit={}", role, p.edit),
                    format!("URIs {:?} and {:?} are not equivalent for {} (canonical forms {:?} vs {:?}) but both map to {:?} (raw {:?} / {:?})", p.a, p.b, role, x.class, y.class, normalise(&x.path), x.path, y.path),
                );
            }
            if x.role == y.role && x.class == y.class {
                info.class(if normalise(&x.path) == normalise(&y.path) { "equivalent_same_path" } else { "equivalent_different_path" });
            }
        }
    }
    Verdict::Pass
}

//------------------------------------------------------------------------------------------
// Real operations (thorough tier): two trust anchors whose SIA directories are the two URIs.

fn as_dir(u: &uri::Rsync) -> uri::Rsync {
    let mut d = u.clone();
    d.path_into_dir();
    d
}

fn srv_dir(srv: &Path, u: &uri::Rsync) -> PathBuf {
    srv.join(u.canonical_authority().as_ref()).join(u.module_name()).join(u.path())
}

/// Two trust anchors (keys 0 and 1) whose SIA directories are `dirs`; TA i publishes a manifest, a
/// CRL and one ROA on the fake rsync server if `publish[i]` (its certificate is always published).
/// None = the server tree cannot hold both (a file where a directory is needed).
fn build_real(root: &Path, dirs: &[uri::Rsync; 2], publish: [bool; 2]) -> Option<(WorldPaths, Vec<bytes::Bytes>, Vec<uri::Rsync>)> {
    let paths = WorldPaths { conf: root.join("routinator.conf"), cache: root.join("cache"), tals: root.join("tals"), srv: root.join("srv"), rsync_log: root.join("rsync.log"), rsync_bin: std::env::current_exe().expect("exe").with_file_name("rvrsync"), rrdp_proxy: None };
    for d in [&paths.cache, &paths.tals, &paths.srv, &root.join("dump")] {
        std::fs::create_dir_all(d).unwrap();
    }
    let now = rpki::repository::x509::Time::now();
    let mut manifests = Vec::new();
    let mut mft_uris = Vec::new();
    for (i, dir) in dirs.iter().enumerate() {
        let mft_uri = dir.join(b"m.mft").unwrap();
        let crl_uri = dir.join(b"c.crl").unwrap();
        let roa_uri = dir.join(b"r.roa").unwrap();
        let ta_uri = uri::Rsync::from_string(format!("{}ta{}.cer", dir.module(), i)).unwrap();
        let res = own_res(i);
        let ta = gen::issue_ta(i, &res, gen::validity(now, -86400, 86400 * 365), dir, &mft_uri, None, 1);
        let issuer = gen::Issuer { key: i, cert_uri: ta_uri.clone(), crl_uri: crl_uri.clone() };
        let roa = gen::issue_roa(&issuer, &roa_uri, 64512 + i as u32, &[(IpAddr::V4(Ipv4Addr::new(10, i as u8, 0, 0)), 24, None)], gen::validity(now, -3600, 86400), 11, None);
        let crl = gen::issue_crl(&issuer, gen::t(now, -60), gen::t(now, 86400), &[], 1, None);
        let entries = vec![("r.roa".to_string(), gen::sha256(&roa)), ("c.crl".to_string(), gen::sha256(&crl))];
        let mft = gen::issue_manifest(&issuer, &mft_uri, 1, gen::t(now, -120), gen::t(now, 86400), &entries, gen::validity(now, -180, 86400), 1000, None);
        let modroot = paths.srv.join(dir.canonical_authority().as_ref()).join(dir.module_name());
        std::fs::create_dir_all(&modroot).ok()?;
        std::fs::write(modroot.join(format!("ta{}.cer", i)), &ta).ok()?;
        if publish[i] {
            let sd = srv_dir(&paths.srv, dir);
            std::fs::create_dir_all(&sd).ok()?;
            for (name, data) in [("m.mft", mft.clone()), ("c.crl", crl), ("r.roa", roa)] {
                std::fs::write(sd.join(name), &data).ok()?;
            }
        }
        std::fs::write(paths.tals.join(format!("t{}.tal", i)), gen::tal_text(&[ta_uri.to_string()], i)).unwrap();
        manifests.push(mft);
        mft_uris.push(mft_uri);
    }
    Some((paths, manifests, mft_uris))
}

/// Informational probe (never a verdict of this property): trust anchor 1 merely *claims* a
/// publication point below trust anchor 0's manifest file, resp. at trust anchor 0's directory;
/// what happens to the run?
fn prefix_probe(ctx: &Ctx) -> serde_json::Value {
    let mut res = serde_json::Map::new();
    for (name, b_dir) in [("control: unrelated directory", "rsync://h.example/m/b/"), ("claimed point below the other point's manifest file", "rsync://h.example/m/a/m.mft/")] {
        let scratch = ctx.scratch();
        let dirs = [uri::Rsync::from_str("rsync://h.example/m/a/").unwrap(), uri::Rsync::from_str(b_dir).unwrap()];
        let Some((paths, _, _)) = build_real(scratch.path(), &dirs, [true, false]) else {
            res.insert(name.into(), serde_json::json!("server tree conflict"));
            continue;
        };
        let mut config = config_for(&Cfg { threads: 1, ..Default::default() }, &paths);
        config.allow_dubious_hosts = true;
        let mut outcomes = Vec::new();
        for run in 0..2 {
            outcomes.push(match run_config(&config, false, &empty_exceptions()) {
                Ok(o) => format!("run {}: ok, {} VRPs", run + 1, o.payload.origins.len()),
                Err(e) => format!("run {}: {}", run + 1, e),
            });
        }
        res.insert(name.into(), serde_json::json!(outcomes));
    }
    serde_json::Value::Object(res)
}

fn prop_real(ctx: &Ctx, p: &Pair, info: &mut CaseInfo) -> Verdict {
    let (Ok(ua), Ok(ub)) = (uri::Rsync::from_str(&p.a), uri::Rsync::from_str(&p.b)) else { return Verdict::Dropped("unparsable".into()) };
    let dirs = [as_dir(&ua), as_dir(&ub)];
    info.class(format!("edit={}", p.edit));
    if dirs[0] == dirs[1] {
        info.class("equivalent_skipped");
        return Verdict::Pass;
    }
    // a component of 255+ bytes cannot be created on the fake server either
    if p.a.split('/').chain(p.b.split('/')).any(|s| s.len() > 200) || p.a.len() > 3000 {
        return Verdict::Dropped("name_too_long_for_fs".into());
    }
    let scratch = ctx.scratch();
    let root = scratch.path();
    let Some((paths, manifests, mft_uris)) = build_real(root, &dirs, [true, true]) else {
        // e.g. one URI's directory is the other's file on the fake server: not this property
        return Verdict::Dropped("server_tree_conflict".into());
    };
    let outside = |p: &String| !p.starts_with("cache/") && !p.starts_with("dump/") && p != "rsync.log";
    let before: std::collections::BTreeSet<String> = list_tree(root).into_iter().filter(outside).collect();
    let mut config = config_for(&Cfg { threads: 1, ..Default::default() }, &paths);
    config.allow_dubious_hosts = true;
    let out = match run_config(&config, false, &empty_exceptions()) {
        Ok(o) => o,
        Err(e) => return Verdict::fail(format!("C30/real/run-fails/edit={}", p.edit), format!("engine run with SIA directories {:?} and {:?} fails: {}", dirs[0].as_str(), dirs[1].as_str(), e)),
    };
    let accepted = out.payload.origins.len();
    info.class(format!("accepted_vrps={}", accepted));
    info.nt(accepted == 2);
    let engine = match routinator::engine::Engine::new(&config, true) {
        Ok(e) => e,
        Err(_) => return Verdict::Dropped("engine_new".into()),
    };
    let dump = root.join("dump");
    let dumped = engine.dump(&dump).is_ok();
    let after: std::collections::BTreeSet<String> = list_tree(root).into_iter().filter(outside).collect();
    if let Some(extra) = after.difference(&before).next() {
        return Verdict::fail(format!("C30/real/file-outside-cache-or-dump/edit={}", p.edit), format!("SIA directories {:?} / {:?}: after run + dump the entry {:?} exists outside the cache and dump directories", dirs[0].as_str(), dirs[1].as_str(), extra));
    }
    if let Some(gone) = before.difference(&after).next() {
        return Verdict::fail(format!("C30/real/file-outside-cache-removed/edit={}", p.edit), format!("SIA directories {:?} / {:?}: {:?} outside the cache was removed", dirs[0].as_str(), dirs[1].as_str(), gone));
    }
    if accepted < 2 {
        // one of the points was not accepted (e.g. a name routinator refuses); sharing cannot be judged
        return Verdict::Dropped("point_not_accepted".into());
    }
    let store = routinator::store::Store::new(&config).expect("store");
    for i in 0..2 {
        let path = store.verif_point_path(None, &mft_uris[i]);
        match read_stored_file(&path) {
            Ok(Some(v)) if v.manifest == manifests[i] => {}
            other => {
                return Verdict::fail(
                    format!("C30/real/stored-point-not-own/edit={}", p.edit),
                    format!("SIA directories {:?} / {:?}: stored point file {:?} of point {} does not hold its manifest: {:?}", dirs[0].as_str(), dirs[1].as_str(), path, i, other.map(|o| o.map(|v| v.objects.keys().cloned().collect::<Vec<_>>()))),
                )
            }
        }
        let copy = routinator::collector::verif::rsync_uri_path(&config, &mft_uris[i]).unwrap();
        if std::fs::read(&copy).ok().as_deref() != Some(manifests[i].as_ref()) {
            return Verdict::fail(format!("C30/real/rsync-copy-not-own/edit={}", p.edit), format!("rsync copy {:?} of {} does not hold that manifest", copy, mft_uris[i]));
        }
        if dumped {
            let dp = dump.join("store/rsync").join(mft_uris[i].canonical_authority().as_ref()).join(mft_uris[i].module_name()).join(mft_uris[i].path());
            if std::fs::read(&dp).ok().as_deref() != Some(manifests[i].as_ref()) {
                return Verdict::fail(format!("C30/real/dump-not-own/edit={}", p.edit), format!("dumped file {:?} of {} does not hold that manifest", dp, mft_uris[i]));
            }
        }
    }
    if !dumped {
        return Verdict::fail(format!("C30/real/dump-fails/edit={}", p.edit), format!("Engine::dump fails for SIA directories {:?} / {:?}", dirs[0].as_str(), dirs[1].as_str()));
    }
    info.class("real_both_points_stored_copied_dumped");
    Verdict::Pass
}

pub fn run(ctx: &Ctx, rep: &mut Report, replay: Option<&serde_json::Value>) {
    rep.rule("pairs of URIs: a base URI from rpki's accepting grammar (scheme in any case; hosts of 1-3 labels with upper case, trailing dot, port, or special names such as a..b, %2e%2e, localhost, 127.0.0.1, tmp/rsync/rrdp/ta, for https also the empty authority, '.' and '..'; module and path segments from every legal character incl. special segments a..b, ..., %2e%2e, %2f, ~ ! $ & ' ( ) * + , ; = : and names of routinator's own sub-directories; depth 0-5, 1 in 9 up to 40; file URIs never end in '/') and a small edit of it (case of one host / scheme / path letter, one character replaced / inserted / deleted, a segment boundary moved by one, segment dropped / duplicated, trailing dot or port added to the host, one character percent-encoded, %2e decoded); every URI is re-parsed by rpki; roles: trust anchor path (rsync, https), stored point path without and with rpkiNotify, stored point path of an RRDP repository keyed by the https URI, rsync module path, rsync object path, RRDP archive path; non-trivial = pair differing only in host case or only in path case, or a URI with a dot-like segment (.., %2e, %2f, /.); distinct by serialised pair");
    rep.assume("'equivalent' is rpki's PartialEq for Rsync / Https (scheme and authority compared ignoring ASCII case, the rest exactly); the check drops a pair if that ever disagrees with the canonical form built from canonical_authority()");
    rep.assume("the rsync module path is shared by design by all URIs of one module: for that role two URIs are equivalent iff their canonical modules are equal");
    rep.assume("lexical normalisation only (no symlinks are created by routinator); file systems are case-sensitive");
    let fx = Fixture::new(ctx);
    ctx.shrink_iters.store(400, std::sync::atomic::Ordering::Relaxed);
    if let Some(v) = replay {
        let t: Tagged<Pair> = serde_json::from_value(v.clone()).expect("replay");
        if t.sub.starts_with("real") {
            run_case(ctx, rep, &t.sub, &t.case, |p, info| prop_real(ctx, p, info));
        } else {
            run_case(ctx, rep, &t.sub, &t.case, |p, info| prop_paths(&fx, p, info));
        }
        return;
    }
    // directed pairs (always run)
    let directed: Vec<Pair> = [
        (Kind::Rsync, "rsync://example.net/repo/ca/x.mft", "rsync://EXAMPLE.net/repo/ca/x.mft", "host-case"),
        (Kind::Rsync, "rsync://example.net/repo/ca/x.mft", "rsync://example.net/repo/CA/x.mft", "path-case"),
        (Kind::Rsync, "rsync://example.net/repo/ca/x.mft", "rsync://example.net/Repo/ca/x.mft", "path-case"),
        (Kind::Rsync, "rsync://example.net/repo/a/bc.mft", "rsync://example.net/repo/ab/c.mft", "move-boundary"),
        (Kind::Rsync, "rsync://example.net/re/po/x.mft", "rsync://example.net/rep/o/x.mft", "move-boundary"),
        (Kind::Rsync, "rsync://a/b.c/d/x.mft", "rsync://a.b/c/d/x.mft", "move-boundary"),
        (Kind::Rsync, "rsync://example.net/repo/%2e%2e/x.mft", "rsync://example.net/repo/%2E%2E/x.mft", "path-case"),
        (Kind::Rsync, "rsync://example.net/repo/a..b/x.mft", "rsync://example.net/repo/a.b/x.mft", "delete-char"),
        (Kind::Rsync, "rsync://example.net/repo/x.mft", "rsync://example.net./repo/x.mft", "host-trailing-dot"),
        (Kind::Rsync, "rsync://example.net/repo/x.mft", "rsync://example.net:873/repo/x.mft", "host-port"),
        (Kind::Https, "https://example.net/notify.xml", "https://EXAMPLE.net/notify.xml", "host-case"),
        (Kind::Https, "https://example.net/notify.xml", "https://example.net/Notify.xml", "path-case"),
        (Kind::Https, "https://../notify.xml", "https://./notify.xml", "replace-char"),
        (Kind::Https, "https://../notify.xml", "https:///notify.xml", "delete-char"),
        (Kind::Https, "https://example.net/a/../b", "https://example.net/b", "drop-segment"),
        (Kind::Https, "https://example.net//b", "https://example.net/b", "delete-char"),
        (Kind::Https, "https://tmp/notify.xml", "https://rsync/notify.xml", "replace-char"),
    ]
    .iter()
    .map(|(k, a, b, e)| Pair { kind: *k, a: a.to_string(), b: b.to_string(), edit: e.to_string() })
    .collect();
    let no_directed = std::env::var_os("RV_NO_DIRECTED").is_some();
    for p in directed.iter().filter(|_| !no_directed) {
        run_case(ctx, rep, "paths", p, |p, info| prop_paths(&fx, p, info));
    }
    let n = ctx.tier.pick(1500u32, 12_000);
    let t = std::time::Instant::now();
    run_prop_par(ctx, rep, "paths", n, 16, || pair(Kind::Rsync), |p, info| prop_paths(&fx, p, info));
    eprintln!("C30: rsync pairs {:.1}s", t.elapsed().as_secs_f64());
    run_prop_par(ctx, rep, "paths", ctx.tier.pick(4500u32, 100_000), 8, || pair(Kind::Https), |p, info| prop_paths(&fx, p, info));
    eprintln!("C30: https pairs {:.1}s", t.elapsed().as_secs_f64());
    // real operations
    ctx.shrink_iters.store(60, std::sync::atomic::Ordering::Relaxed);
    let real_n = ctx.tier.pick(40u32, 1500);
    let mut seen: BTreeMap<String, u64> = BTreeMap::new();
    for p in directed.iter().filter(|p| p.kind == Kind::Rsync && !no_directed) {
        run_case(ctx, rep, "real", p, |p, info| prop_real(ctx, p, info));
        *seen.entry(p.edit.clone()).or_default() += 1;
    }
    run_prop_par(ctx, rep, "real", real_n, 8, || pair(Kind::Rsync), |p, info| prop_real(ctx, p, info));
    rep.extra.insert("directed_real_pairs_by_edit".into(), serde_json::json!(seen));
    if !rep.violated() {
        rep.extra.insert("informational_prefix_conflict_probe".into(), prefix_probe(ctx));
    }
}
