//! C37 — not built yet.

use crate::core::*;

pub const IMPLEMENTED: bool = false;

pub fn run(_ctx: &Ctx, _rep: &mut Report, _replay: Option<&serde_json::Value>) {
    eprintln!("C37: check not implemented");
    std::process::exit(2);
}
