//! C37 Each repository is fetched at most once per run.
//!
//! 2–4 "validation threads" call the real `collector::Run::repository(&ca_cert)` (followed by
//! `Repository::load_object`) for CA certificates whose caRepository lies in the same or in
//! different rsync modules, under a harness-owned schedule over the try-lock yield points of the
//! collector's `updated` / `running` / per-module mutex / metrics bookkeeping. The transport is the
//! fake rsync binary `rvrsync` (a real subprocess started by the unmodified `RsyncCommand`), whose
//! log file counts the invocations per module. Before every run the fake server publishes a new
//! version of every object while the local copy still holds the previous one.
//!
//! Oracles (property statement): (1) per run, every module is fetched at most once (rvrsync log and
//! the run's rsync metrics); (2) every user gets the repository only after that fetch finished:
//! the object it reads right after `repository()` returned is the server's current version, never
//! the stale local copy, a missing or a partial file; plus: exactly one fetch for a module that was
//! requested at all, no panic, no deadlock.
//!
//! Sub-checks: `dfs` (all schedules of small programs), `sched` (generated programs + generated
//! schedules), `stress` (uncontrolled threads with a fetch that takes 30 ms, best effort), `engine`
//! (whole validation runs of the real engine with eight validation threads over CA forests whose
//! publication points share few rsync modules; fetches counted per module, un-hooked).

use std::collections::BTreeMap;
use std::path::{Path, PathBuf};
use std::sync::{Arc, Mutex};

use proptest::prelude::*;
use routinator::collector::Collector;
use routinator::config::Config;
use routinator::engine::CaCert;
use routinator::metrics::Metrics;
use rpki::repository::cert::Cert;
use rpki::repository::tal::{TalInfo, TalUri};
use rpki::repository::x509::Time;
use serde::{Deserialize, Serialize};

use crate::core::*;
use crate::erpki::uri_rsync;
use crate::hsched::Bounded;
use crate::rpkigen as gen;
use crate::sched::{self, BytesChooser, Chooser, Dfs, Event, Job, Opts};

pub const KNOWN_DOUBLE: &str = "C37/rsync/double-fetch/marker-removed-before-updated";

// Locks held across yield points: the per-module mutex (both collectors) and, in the RRDP
// collector, the read guard of `updated` that lives through the `if let` body which removes the
// `running` entry. So a thread can really be blocked at `sync.mutex.lock` and at
// `sync.rwlock.write`; on the other hand `running.write()` / `updated.write()` follow each other
// with the same label. The scheduler is therefore run with `stutter_after: 2` (a thread counts as
// blocked only when it comes back to the same label twice in a row).

/// CA number -> (host, module, directory). CAs 0,1,4 share one module, 2 is another module on the
/// same host, 3 and 5 live on another host (5 in the same module as 3).
pub const CAS: [(&str, &str, &str); 9] = [
    ("m0.rv.test", "repo", "ca0"),
    ("m0.rv.test", "repo", "ca1"),
    ("m0.rv.test", "alt", "ca2"),
    ("m1.rv.test", "repo", "ca3"),
    ("m0.rv.test", "repo", "ca4/deep"),
    ("m1.rv.test", "repo", "ca5"),
    // CAs 6.. publish through RRDP (rpkiNotify https://<host>/notify.xml): 6 and 7 share a repository
    ("r0.rpki.test", "repo", "ca6"),
    ("r0.rpki.test", "repo", "ca7"),
    ("r1.rpki.test", "repo", "ca8"),
];
/// Number of rsync-only CAs (the first ones in `CAS`).
pub const N_RSYNC: usize = 6;

fn is_rrdp(ca: usize) -> bool {
    ca >= N_RSYNC
}

/// The repository a CA is fetched from: rsync module `host/module` or `rrdp:host`.
fn module_of(ca: usize) -> String {
    if is_rrdp(ca) {
        format!("rrdp:{}", CAS[ca].0)
    } else {
        format!("{}/{}", CAS[ca].0, CAS[ca].1)
    }
}

fn object_uri(ca: usize) -> String {
    format!("rsync://{}/{}/{}/obj.bin", CAS[ca].0, CAS[ca].1, CAS[ca].2)
}

#[derive(Serialize, Deserialize, Clone, Debug)]
pub struct Case {
    /// per thread: the CAs it asks the collector for, in order
    pub threads: Vec<Vec<u8>>,
    /// schedule (`sched::BytesChooser`)
    pub choices: Vec<u8>,
}

struct World {
    https: crate::c37net::MiniHttps,
    dir: tempfile::TempDir,
    collector: &'static Collector,
    cas: Vec<Arc<CaCert>>,
    version: std::cell::Cell<u64>,
}

fn content(version: u64, ca: usize) -> Vec<u8> {
    // long enough that a partially written file is distinguishable
    let mut v = format!("v{} ca{} {}\n", version, ca, object_uri(ca)).into_bytes();
    while v.len() < 4096 {
        let l = v.len();
        v.push(b'a' + (l % 23) as u8);
    }
    v
}

impl World {
    fn srv(&self) -> PathBuf {
        self.dir.path().join("srv")
    }
    fn log(&self) -> PathBuf {
        self.dir.path().join("rsync.log")
    }

    fn config(dir: &Path, command: &Path, https: &crate::c37net::MiniHttps) -> Config {
        let mut c = Config::default_with_paths(dir.join("routinator.conf"), dir.join("cache"));
        c.no_rir_tals = true;
        c.disable_rrdp = false;
        c.rrdp_root_certs = vec![crate::c37net::ca_path()];
        c.rrdp_proxies = vec![https.proxy_url()];
        c.rrdp_timeout = Some(std::time::Duration::from_secs(30));
        c.rrdp_connect_timeout = Some(std::time::Duration::from_secs(10));
        c.rsync_command = command.to_string_lossy().into_owned();
        c.rsync_args = Some(vec![format!("--rv-root={}", dir.join("srv").display()), format!("--rv-log={}", dir.join("rsync.log").display())]);
        c.rsync_timeout = Some(std::time::Duration::from_secs(60));
        c
    }

    fn new(ctx: &Ctx, slow: bool) -> World {
        let dir = ctx.scratch();
        for d in ["srv", "cache"] {
            std::fs::create_dir_all(dir.path().join(d)).unwrap();
        }
        let rvrsync = std::env::current_exe().expect("exe").parent().unwrap().join("rvrsync");
        let command = if slow {
            // a transfer that takes a while: the data arrives only at the end
            let script = dir.path().join("slow-rsync.sh");
            std::fs::write(&script, format!("#!/bin/sh\nfor a in \"$@\"; do if [ \"$a\" = \"-h\" ]; then exec {} -h; fi; done\nsleep 0.03\nexec {} \"$@\"\n", rvrsync.display(), rvrsync.display())).unwrap();
            use std::os::unix::fs::PermissionsExt;
            std::fs::set_permissions(&script, std::fs::Permissions::from_mode(0o755)).unwrap();
            script
        } else {
            rvrsync
        };
        let https = crate::c37net::MiniHttps::start();
        let config = Self::config(dir.path(), &command, &https);
        let mut collector = Collector::new(&config).expect("collector");
        collector.ignite().expect("ignite");
        // `Run<'a>` borrows the collector; the jobs of a schedule are 'static, so the collector of
        // this check run is leaked once.
        let collector: &'static Collector = Box::leak(Box::new(collector));
        let now = Time::now();
        let cas = (0..CAS.len())
            .map(|i| {
                let repo = uri_rsync(&format!("rsync://{}/{}/{}/", CAS[i].0, CAS[i].1, CAS[i].2));
                let mft = uri_rsync(&format!("rsync://{}/{}/{}/ca.mft", CAS[i].0, CAS[i].1, CAS[i].2));
                let res = gen::Res { v4: vec![(std::net::Ipv4Addr::new(10, i as u8, 0, 0), 16)], v6: vec![], asn: vec![(64500 + i as u32, 64500 + i as u32)] };
                let notify = is_rrdp(i).then(|| rpki::uri::Https::from_string(format!("https://{}/notify.xml", CAS[i].0)).unwrap());
                let der = gen::issue_ta(i, &res, gen::validity(now, -86400, 86400 * 30), &repo, &mft, notify.as_ref(), 1 + i as u128);
                let cert = Cert::decode(der).expect("own TA decodes");
                let cert = cert.validate_ta(TalInfo::from_name(format!("ta{}", i)).into_arc(), false).expect("validate_ta");
                CaCert::root(cert, TalUri::from_string(format!("rsync://{}/{}/ta{}.cer", CAS[i].0, CAS[i].1, i)).unwrap(), i).expect("CaCert::root")
            })
            .collect();
        World { https, dir, collector, cas, version: std::cell::Cell::new(0) }
    }

    /// The server publishes the next version of every object; the fetch log starts empty.
    fn next_version(&self) -> u64 {
        let v = self.version.get() + 1;
        self.version.set(v);
        for ca in 0..N_RSYNC {
            let dir = self.srv().join(CAS[ca].0).join(CAS[ca].1).join(CAS[ca].2);
            if v == 1 {
                std::fs::create_dir_all(&dir).unwrap();
            }
            std::fs::write(dir.join("obj.bin"), content(v, ca)).unwrap();
        }
        let _ = std::fs::remove_file(self.log());
        // RRDP repositories: a new session per version, so every run has to take the snapshot
        let hosts: std::collections::BTreeSet<&str> = (N_RSYNC..CAS.len()).map(|ca| CAS[ca].0).collect();
        for (k, host) in hosts.into_iter().enumerate() {
            let session = uuid::Uuid::from_u128(((v as u128) << 8) | k as u128);
            let elements = (N_RSYNC..CAS.len()).filter(|ca| CAS[*ca].0 == host).map(|ca| rpki::rrdp::PublishElement::new(uri_rsync(&object_uri(ca)), bytes::Bytes::from(content(v, ca)))).collect();
            let mut snapshot = Vec::new();
            rpki::rrdp::Snapshot::new(session, v, elements).write_xml(&mut snapshot).expect("snapshot xml");
            let info = rpki::rrdp::UriAndHash::new(rpki::uri::Https::from_string(format!("https://{}/snapshot.xml", host)).unwrap(), rpki::rrdp::Hash::from_data(&snapshot));
            let mut notification = Vec::new();
            rpki::rrdp::NotificationFile::new(session, v, info, Vec::new()).write_xml(&mut notification).expect("notification xml");
            self.https.set(host, "/snapshot.xml", snapshot);
            self.https.set(host, "/notify.xml", notification);
        }
        self.https.clear_log();
        v
    }

    /// Preamble: one sequential RRDP fetch and one rsync fetch must work, otherwise the fixture is
    /// broken (infrastructure failure, not a verdict).
    fn selftest(&self) {
        let v = self.next_version();
        let run = self.collector.start();
        for ca in [6usize, 0] {
            let repo = run.repository(&self.cas[ca]).ok().flatten().unwrap_or_else(|| panic!("self-test: no repository for CA {} (fetches {:?})", ca, self.fetch_counts()));
            assert_eq!(repo.is_rrdp(), is_rrdp(ca), "self-test: CA {} served through the wrong transport (fetches {:?})", ca, self.fetch_counts());
            let data = repo.load_object(&uri_rsync(&object_uri(ca))).ok().flatten().map(|d| d.to_vec());
            assert_eq!(data, Some(content(v, ca)), "self-test: object of CA {} not as published", ca);
        }
    }

    fn fetch_counts(&self) -> BTreeMap<String, usize> {
        let mut m = BTreeMap::new();
        if let Ok(text) = std::fs::read_to_string(self.log()) {
            for l in text.lines() {
                *m.entry(l.trim().to_string()).or_default() += 1;
            }
        }
        // an RRDP repository counts as fetched once per request for its notification file
        for ((host, path), n) in self.https.counts() {
            if path == "/notify.xml" {
                *m.entry(format!("rrdp:{}", host)).or_default() += n;
            } else if n > 1 {
                *m.entry(format!("rrdp-file:{}{}", host, path)).or_default() += n;
            }
        }
        m
    }
}

/// What one `repository()` + `load_object()` call observed.
#[derive(Clone, Debug)]
struct Got {
    tid: usize,
    ca: usize,
    /// false = `repository()` returned no repository
    repo: bool,
    via_rrdp: bool,
    data: Option<Vec<u8>>,
}

fn jobs_for(case: &Case, world: &World, run: &Arc<routinator::collector::Run<'static>>, got: &Arc<Mutex<Vec<Got>>>) -> Vec<Job> {
    case.threads
        .iter()
        .enumerate()
        .map(|(tid, list)| {
            let list = list.clone();
            let run = run.clone();
            let got = got.clone();
            let cas = world.cas.clone();
            Box::new(move || {
                for ca in list {
                    let ca = ca as usize % CAS.len();
                    sched::note(format!("req {}", ca));
                    let res = run.repository(&cas[ca]);
                    let g = match res {
                        Ok(Some(repo)) => {
                            let data = repo.load_object(&uri_rsync(&object_uri(ca))).ok().flatten();
                            Got { tid, ca, repo: true, via_rrdp: repo.is_rrdp(), data: data.map(|d| d.to_vec()) }
                        }
                        _ => Got { tid, ca, repo: false, via_rrdp: false, data: None },
                    };
                    sched::note(format!("got {}", ca));
                    got.lock().unwrap().push(g);
                }
            }) as Job
        })
        .collect()
}

/// The lock steps of one `load_module` call, recovered from the trace.
#[derive(Debug, Default, Clone)]
struct Call {
    tid: usize,
    ca: usize,
    /// `running.write().entry(..)`
    entry: Option<usize>,
    /// second `updated.read()` (after the module mutex was acquired); the fetch, if any, runs in this step
    check2: Option<usize>,
    /// writes after the fetch, in order (unchanged tree: remove from `running`, insert into `updated`)
    post_writes: Vec<usize>,
    fetched: bool,
    /// failed attempts on the module mutex (the caller really waited for somebody else's fetch)
    blocked: usize,
}

fn calls_of(trace: &[Event]) -> Vec<Call> {
    let mut open: BTreeMap<usize, (Call, u8)> = BTreeMap::new();
    let mut res = Vec::new();
    for (i, ev) in trace.iter().enumerate() {
        match ev {
            Event::Note { tid, text } => {
                if let Some(ca) = text.strip_prefix("req ") {
                    open.insert(*tid, (Call { tid: *tid, ca: ca.parse().unwrap_or(0), ..Default::default() }, 0));
                } else if text.starts_with("got ") {
                    if let Some((c, _)) = open.remove(tid) {
                        res.push(c);
                    }
                }
            }
            Event::Step { tid, label } => {
                let Some((c, st)) = open.get_mut(tid) else { continue };
                // states: 0 before check1, 1 before entry, 2 acquiring the module mutex, 3 before check2,
                // 4 before metrics lock, 5 post writes
                match (*st, *label) {
                    (0, "sync.rwlock.read") => *st = 1,
                    (1, "sync.rwlock.write") => {
                        c.entry = Some(i);
                        *st = 2;
                    }
                    (2, "sync.mutex.lock") => {
                        // acquired if the next step of this thread is not another attempt; counted below
                        c.blocked += 1;
                    }
                    (2, "sync.rwlock.read") => {
                        c.blocked = c.blocked.saturating_sub(1);
                        c.check2 = Some(i);
                        *st = 4;
                    }
                    (4, "sync.mutex.lock") => {
                        c.fetched = true;
                        *st = 5;
                    }
                    (5, "sync.rwlock.write") => c.post_writes.push(i),
                    _ => {}
                }
            }
            Event::Done { .. } => {}
        }
    }
    res
}

/// The known shape, as a fact about the schedule (independent of the outcome): some caller made
/// its `running` entry for module M after a fetcher of M had removed its marker, and made its second
/// `updated` check before that fetcher recorded completion.
fn known_shape_modules(calls: &[Call]) -> Vec<String> {
    let mut res = Vec::new();
    for y in calls.iter().filter(|c| c.fetched && c.post_writes.len() == 2 && !is_rrdp(c.ca)) {
        for x in calls.iter() {
            if (x.tid, x.ca) == (y.tid, y.ca) || module_of(x.ca) != module_of(y.ca) {
                continue;
            }
            if let (Some(e), Some(c2)) = (x.entry, x.check2) {
                if e > y.post_writes[0] && c2 < y.post_writes[1] {
                    res.push(module_of(y.ca));
                }
            }
        }
    }
    res.sort();
    res.dedup();
    res
}

thread_local! {
    static DIRECTED: std::cell::Cell<bool> = const { std::cell::Cell::new(false) };
    static EXCLUDED: std::cell::Cell<u64> = const { std::cell::Cell::new(0) };
}

fn flush_excluded(rep: &mut Report) {
    let n = EXCLUDED.with(|e| e.replace(0));
    if n > 0 {
        *rep.excluded_known.entry(KNOWN_DOUBLE.to_string()).or_default() += n;
    }
}

fn execute(world: &World, case: &Case, chooser: &mut dyn Chooser, info: &mut CaseInfo) -> Verdict {
    if case.threads.len() < 2 || case.threads.len() > 4 || case.threads.iter().any(|t| t.is_empty() || t.len() > 3) {
        return Verdict::Dropped("case_out_of_domain".into());
    }
    let version = world.next_version();
    let run = Arc::new(world.collector.start());
    let got: Arc<Mutex<Vec<Got>>> = Default::default();
    let out = sched::run_opts(jobs_for(case, world, &run, &got), chooser, &mut |_| Ok(()), &Opts { stutter_labels: None, stutter_after: 2 });
    if let Some((tid, msg)) = out.panics.first() {
        return Verdict::fail("C37/thread-panic", format!("thread {} panicked: {}", tid, msg));
    }
    if out.deadlock {
        return Verdict::fail("C37/deadlock", format!("all threads blocked on locks; trace tail {:?}", out.trace.iter().rev().take(10).collect::<Vec<_>>()));
    }
    if out.diverged {
        return Verdict::Dropped("schedule_step_bound".into());
    }
    let mut metrics = Metrics::new();
    let metric_counts: BTreeMap<String, usize> = match Arc::try_unwrap(run) {
        Ok(run) => {
            run.done(&mut metrics);
            let mut m = BTreeMap::new();
            for r in &metrics.rsync {
                let s = r.module.to_string();
                *m.entry(s.trim_start_matches("rsync://").trim_end_matches('/').to_string()).or_default() += 1;
            }
            for r in &metrics.rrdp {
                *m.entry(format!("rrdp:{}", r.notify_uri.canonical_authority())).or_default() += 1;
            }
            m
        }
        Err(_) => return Verdict::Dropped("run_still_shared".into()),
    };
    let counts = world.fetch_counts();
    let calls = calls_of(&out.trace);
    if std::env::var_os("RV_TRACE").is_some() {
        eprintln!("trace: {}\ncalls: {:?}\ncounts: {:?}", crate::hsched::render_trace(&out.trace), calls, counts);
    }
    let got = std::mem::take(&mut *got.lock().unwrap());

    // ---- coverage ----
    let mut requested: BTreeMap<String, Vec<(usize, usize)>> = BTreeMap::new();
    for (tid, list) in case.threads.iter().enumerate() {
        for ca in list {
            requested.entry(module_of(*ca as usize % CAS.len())).or_default().push((tid, *ca as usize % CAS.len()));
        }
    }
    let shared = requested.values().filter(|v| v.iter().map(|x| x.0).collect::<std::collections::BTreeSet<_>>().len() >= 2).count();
    let known_modules = known_shape_modules(&calls);
    // non-trivial: a second requester of a module made its `running` entry after the fetcher had
    // released the marker and before completion was recorded
    let mut nt = false;
    for y in calls.iter().filter(|c| c.fetched && c.post_writes.len() >= 2) {
        for x in calls.iter() {
            if (x.tid, x.ca) != (y.tid, y.ca) && module_of(x.ca) == module_of(y.ca) {
                if let Some(e) = x.entry {
                    if e > y.post_writes[0] && e < *y.post_writes.last().unwrap() {
                        nt = true;
                    }
                }
            }
        }
    }
    info.nt(nt);
    if nt {
        info.class("nt:requester-between-marker-release-and-completion-record");
    }
    info.class(format!("threads={} repositories={} shared={}", case.threads.len(), requested.len(), shared.min(2)));
    for m in requested.keys() {
        info.class(if m.starts_with("rrdp:") { "transport=rrdp" } else { "transport=rsync" });
    }
    if calls.iter().any(|c| c.blocked > 0) {
        info.class("a-requester-waited-on-the-module-mutex");
    }
    if calls.iter().any(|c| c.entry.is_none()) {
        info.class("a-requester-took-the-fast-path");
    }
    if !known_modules.is_empty() {
        info.class("known-shape:second-check-before-completion-record");
    }

    // ---- oracle 2: every user reads the data of the finished fetch ----
    for g in &got {
        let tr = if is_rrdp(g.ca) { "rrdp" } else { "rsync" };
        if !g.repo {
            return Verdict::fail(format!("C37/{}/no-repository", tr), format!("thread {}: repository() for CA {} returned no repository although its transport is enabled and the server is up; fetches {:?}", g.tid, g.ca, counts));
        }
        if g.via_rrdp != is_rrdp(g.ca) {
            return Verdict::fail(format!("C37/{}/wrong-transport", tr), format!("thread {}: CA {} was served via {} ; fetches {:?}", g.tid, g.ca, if g.via_rrdp { "RRDP" } else { "rsync" }, counts));
        }
        let want = content(version, g.ca);
        match &g.data {
            Some(d) if *d == want => {}
            Some(d) => {
                let stale = version > 1 && *d == content(version - 1, g.ca);
                let key = format!("C37/{}/read-before-fetch/{}", tr, if stale { "stale-copy" } else { "partial-or-foreign-data" });
                return Verdict::fail(key, format!("thread {} read {} right after repository() returned: got {} bytes starting {:?}, the server publishes version {} ({} bytes); fetches {:?}", g.tid, object_uri(g.ca), d.len(), String::from_utf8_lossy(&d[..d.len().min(24)]), version, want.len(), counts));
            }
            None => {
                return Verdict::fail(format!("C37/{}/read-before-fetch/object-missing", tr), format!("thread {} found no {} right after repository() returned; fetches {:?}", g.tid, object_uri(g.ca), counts));
            }
        }
    }
    if got.len() != case.threads.iter().map(|t| t.len()).sum::<usize>() {
        return Verdict::Dropped("missing_observations".into());
    }

    // ---- oracle 1: at most (exactly) one fetch per requested module ----
    for (module, users) in &requested {
        let n = counts.get(module).copied().unwrap_or(0);
        let m = metric_counts.get(module).copied().unwrap_or(0);
        if n > 1 || m > 1 {
            let is_known_shape = known_modules.contains(module) && !module.starts_with("rrdp:");
            if is_known_shape && is_listed_known("C37", KNOWN_DOUBLE) && !DIRECTED.with(|d| d.get()) {
                info.class("excluded:known-double-fetch-shape");
                EXCLUDED.with(|e| e.set(e.get() + 1));
                continue;
            }
            let key = if module.starts_with("rrdp:") {
                "C37/rrdp/double-fetch".to_string()
            } else if is_known_shape {
                KNOWN_DOUBLE.to_string()
            } else {
                "C37/rsync/double-fetch/other-schedule".to_string()
            };
            return Verdict::fail(
                key,
                format!("repository {} was fetched {} times in one run (the run metrics list it {} times); users (thread, CA) {:?}; calls {:?}; trace: {}", module, n, m, users, calls, crate::hsched::render_trace(&out.trace)),
            );
        }
        let tr = if module.starts_with("rrdp:") { "rrdp" } else { "rsync" };
        if n == 0 {
            return Verdict::fail(format!("C37/{}/never-fetched", tr), format!("repository {} was requested by {:?} but never fetched", module, users));
        }
        if m != n {
            return Verdict::fail(format!("C37/{}/metrics-mismatch", tr), format!("repository {}: {} fetches, {} metric entries", module, n, m));
        }
    }
    if let Some((module, n)) = counts.iter().find(|(m, _)| m.starts_with("rrdp-file:")) {
        return Verdict::fail("C37/rrdp/double-fetch/snapshot", format!("{} was requested {} times in one run", module, n));
    }
    if let Some((module, _)) = counts.iter().find(|(m, _)| !requested.contains_key(*m)) {
        return Verdict::fail("C37/unrequested-fetch", format!("repository {} fetched but never requested", module));
    }
    Verdict::Pass
}

fn prop_sched(world: &World, case: &Case, info: &mut CaseInfo) -> Verdict {
    let mut ch = BytesChooser::new(&case.choices);
    execute(world, case, &mut ch, info)
}

fn dfs_programs(tier: Tier) -> Vec<Case> {
    let c = |threads: &[&[u8]]| Case { threads: threads.iter().map(|t| t.to_vec()).collect(), choices: vec![] };
    let mut v = vec![
        // two CAs of one module
        c(&[&[0], &[1]]),
        // a thread that comes back to the module later
        c(&[&[0, 1], &[4]]),
        // two CAs of one RRDP repository; RRDP and rsync side by side
        c(&[&[6], &[7]]),
        // different modules on one host
        c(&[&[0], &[2]]),
    ];
    if tier == Tier::Thorough {
        v.push(c(&[&[0], &[0]]));
        // RRDP and rsync side by side
        v.push(c(&[&[6], &[0]]));

        v.push(c(&[&[0], &[3]]));
        v.push(c(&[&[0, 3], &[5, 1]]));
        v.push(c(&[&[0], &[1], &[4]]));
        v.push(c(&[&[6, 8], &[7]]));
        v.push(c(&[&[6], &[7], &[6]]));
    }
    v
}

fn run_dfs(ctx: &Ctx, rep: &mut Report, world: &World) {
    // process creation dominates the cost of a schedule (one fake-rsync subprocess per fetch), so the
    // quick tier enumerates all schedules with at most two preemptions; thorough enumerates all
    let bound = ctx.tier.pick(2usize, usize::MAX);
    let bound_rrdp = std::env::var("RV_BOUND_RRDP").ok().and_then(|v| v.parse().ok()).unwrap_or(ctx.tier.pick(3usize, usize::MAX));
    let cap = ctx.tier.pick(2_500usize, 2_500);
    let cap_other = ctx.tier.pick(250usize, 600);
    let cap_rrdp = ctx.tier.pick(2_500usize, 4_000);
    let mut per_program = Vec::new();
    let mut all_exhausted = true;
    let mut total = 0usize;
    for prog in dfs_programs(ctx.tier) {
        let started = std::time::Instant::now();
        let mut dfs = Dfs::new();
        let mut n = 0usize;
        let mut exhausted = false;
        loop {
            let mut info = CaseInfo::default();
            // RRDP-only programs are cheap (no subprocess): higher preemption bound
            let rrdp_only = prog.threads.iter().flatten().all(|c| is_rrdp(*c as usize % CAS.len()));
            let mut bounded = Bounded::new(&mut dfs, if rrdp_only { bound_rrdp } else { bound });
            let verdict = execute(world, &prog, &mut bounded, &mut info);
            n += 1;
            let case = Case { choices: bounded.taken.clone(), ..prog.clone() };
            rep.record(ctx, &Tagged { sub: "sched".to_string(), case }, &info, &verdict);
            if rep.violated() {
                flush_excluded(rep);
                return;
            }
            if !dfs.advance() {
                exhausted = true;
                break;
            }
            // the programs over one shared module are the subject; the others are capped lower
            let one_module = prog.threads.len() == 2 && prog.threads.iter().all(|t| t.len() == 1) && prog.threads.iter().flatten().map(|c| module_of(*c as usize % CAS.len())).collect::<std::collections::BTreeSet<_>>().len() == 1;
            if n >= if rrdp_only { cap_rrdp } else if one_module { cap } else { cap_other } {
                break;
            }
        }
        total += n;
        all_exhausted &= exhausted;
        per_program.push(serde_json::json!({"threads": prog.threads, "schedules": n, "exhausted": exhausted, "wall_ms": started.elapsed().as_millis() as u64}));
    }
    flush_excluded(rep);
    rep.extra.insert("dfs_schedules".into(), serde_json::json!(total));
    rep.extra.insert("dfs_programs".into(), serde_json::json!(per_program));
    rep.exhaustive = Some(all_exhausted && bound == usize::MAX);
    rep.extra.insert("dfs_preemption_bound_rrdp_only_programs".into(), if bound_rrdp == usize::MAX { serde_json::json!("none") } else { serde_json::json!(bound_rrdp) });
    rep.extra.insert("dfs_preemption_bound".into(), if bound == usize::MAX { serde_json::json!("none") } else { serde_json::json!(bound) });
}

fn case_strategy(rrdp_only: bool) -> impl Strategy<Value = Case> {
    (2usize..=4).prop_flat_map(move |n| {
        // mostly CAs of the shared module, sometimes others
        let ca = prop_oneof![3 => Just(0u8), 3 => Just(1u8), 2 => Just(4u8), 1 => Just(2u8), 1 => Just(3u8), 1 => Just(5u8), 3 => Just(6u8), 3 => Just(7u8), 1 => Just(8u8)];
        let ca = if rrdp_only { prop_oneof![3 => Just(6u8), 3 => Just(7u8), 1 => Just(8u8)].boxed() } else { ca.boxed() };
        (prop::collection::vec(prop::collection::vec(ca, 1..=2), n..=n), prop::collection::vec(0u8..4, 0..60)).prop_map(|(threads, choices)| Case { threads, choices })
    })
}

/// Directed representative of the known shape: thread 0 fetches and removes its marker, thread 1
/// then enters, creates a fresh mutex and checks `updated` before thread 0 records completion.
fn directed_known() -> Case {
    // thread 0: start, check1, entry, mutex, check2+fetch, metrics, remove  = 7 steps, then thread 1
    let mut choices = vec![0u8; 7];
    choices.extend(std::iter::repeat(1u8).take(30));
    Case { threads: vec![vec![0], vec![1]], choices }
}

//------------ uncontrolled stress -----------------------------------------------------------------

fn run_stress(ctx: &Ctx, rep: &mut Report) {
    let rounds = ctx.tier.pick(8usize, 60);
    let world = World::new(ctx, true);
    let nthreads = 8usize;
    let mut overlapped = 0usize;
    for round in 0..rounds {
        let version = world.next_version();
        let run = world.collector.start();
        let barrier = std::sync::Barrier::new(nthreads);
        let results: Vec<(usize, usize, Option<Vec<u8>>, std::time::Instant)> = std::thread::scope(|s| {
            let hs: Vec<_> = (0..nthreads)
                .map(|t| {
                    let (run, barrier, cas) = (&run, &barrier, &world.cas);
                    s.spawn(move || {
                        barrier.wait();
                        // stagger arrivals over the duration of the fetch
                        std::thread::sleep(std::time::Duration::from_millis(((t * 7 + round * 3) % 40) as u64));
                        let ca = [0usize, 1, 4, 0, 1, 3, 5, 4][t];
                        let data = match run.repository(&cas[ca]) {
                            Ok(Some(repo)) => repo.load_object(&uri_rsync(&object_uri(ca))).ok().flatten().map(|d| d.to_vec()),
                            _ => None,
                        };
                        (t, ca, data, std::time::Instant::now())
                    })
                })
                .collect();
            hs.into_iter().map(|h| h.join().expect("stress thread")).collect()
        });
        let counts = world.fetch_counts();
        let t_first = results.iter().map(|r| r.3).min().unwrap();
        if results.iter().filter(|r| r.3.duration_since(t_first) < std::time::Duration::from_millis(5)).count() >= 2 {
            overlapped += 1;
        }
        let mut bad: Option<(String, String)> = None;
        for (t, ca, data, _) in &results {
            if data.as_deref() != Some(&content(version, *ca)[..]) {
                bad = Some(("C37/stress/read-before-fetch".into(), format!("round {}: thread {} read {:?} bytes for CA {} instead of version {}; fetches {:?}", round, t, data.as_ref().map(|d| d.len()), ca, version, counts)));
            }
        }
        for (m, n) in &counts {
            if *n > 1 {
                // the unchanged tree can fetch twice through the known window; uncontrolled threads hit it rarely
                let key = if is_listed_known("C37", KNOWN_DOUBLE) { KNOWN_DOUBLE.to_string() } else { "C37/stress/double-fetch".to_string() };
                bad = Some((key, format!("round {}: module {} fetched {} times by uncontrolled threads", round, m, n)));
            }
        }
        if let Some((key, msg)) = bad {
            let case = Tagged { sub: "stress".to_string(), case: serde_json::json!({"round": round}) };
            rep.failure(ctx, &case, &key, &msg);
            if rep.violated() {
                break;
            }
        }
    }
    rep.extra.insert("stress_rounds".into(), serde_json::json!(rounds));
    rep.extra.insert("stress_rounds_with_simultaneous_release".into(), serde_json::json!(overlapped));
}

//------------ whole-engine runs (uncontrolled) ----------------------------------------------------

/// A CA forest whose publication points share few rsync modules, validated by the real engine with
/// eight validation threads: `layout` gives the module of every CA (CA 0 is the trust anchor, CA i>0
/// hangs below CA (i-1)/`fanout`).
#[derive(Serialize, Deserialize, Clone, Debug)]
pub struct EngineCase {
    pub modules: Vec<u8>,
    pub fanout: u8,
    pub runs: u8,
}

fn engine_scenario(case: &EngineCase) -> crate::erpki::Scenario {
    use crate::erpki::*;
    let n = case.modules.len().clamp(2, 12);
    let fanout = case.fanout.clamp(1, 8) as usize;
    let version = |k: usize| Version {
        number: 5,
        this_off: -7200,
        next_off: 86400,
        crl_next_off: 86400,
        ee_after_off: 86400 * 7,
        objs: vec![Obj { kind: ObjKind::Roa { extra: (k % 2) as u8, maxlen_delta: 0, v6: false }, not_after: 86400 * 7, fault: None }],
        fault: None,
        omit_children: vec![],
    };
    let cas = (0..n).map(|i| Ca { parent: if i == 0 { None } else { Some((i - 1) / fanout) }, key: i, module: case.modules[i] as usize % 3, not_after: 86400 * 365, cert_fault: None, versions: vec![version(i)], extra_res: None, ta_alt: vec![], sia_under_parent_mft: false, rrdp: None }).collect::<Vec<_>>();
    let steps = vec![Step { publish: vec![0; n], fail_modules: vec![], offline: false, stale: None, foreign_tal_key: vec![], ta_serve: vec![], fail_rrdp: vec![] }];
    Scenario { cfg: Cfg { threads: 8, ..Default::default() }, cas, steps }
}

fn prop_engine(ctx: &Ctx, case: &EngineCase, info: &mut CaseInfo) -> Verdict {
    use crate::erpki::*;
    let sc = engine_scenario(case);
    let scratch = ctx.scratch();
    let mut world = World::new(&sc, scratch.path());
    world.publish(&sc.steps[0]);
    let used: std::collections::BTreeSet<usize> = sc.cas.iter().map(|c| c.module).collect();
    let sharing = sc.cas.len() - used.len();
    info.class(format!("engine: cas={} modules={}", sc.cas.len(), used.len()));
    info.nt(sharing >= 2);
    for r in 0..case.runs.clamp(1, 4) {
        let _ = std::fs::remove_file(world.rsync_log());
        match world.run(false, &empty_exceptions()) {
            Ok(out) => {
                if r == 0 && out.payload.is_empty() {
                    return Verdict::Dropped("engine_run_produced_nothing".into());
                }
            }
            Err(e) => return Verdict::Dropped(format!("engine_run_failed:{}", truncate(&e, 40))),
        }
        let mut counts: BTreeMap<String, usize> = BTreeMap::new();
        for l in parse_rsync_log(&world.rsync_log()) {
            *counts.entry(l.trim().to_string()).or_default() += 1;
        }
        if let Some((m, n)) = counts.iter().find(|(_, n)| **n > 1) {
            // uncontrolled threads can run into the known window of the rsync collector
            let key = if is_listed_known("C37", KNOWN_DOUBLE) { KNOWN_DOUBLE.to_string() } else { "C37/engine/double-fetch".to_string() };
            return Verdict::fail(key, format!("engine run {} (8 validation threads, {} CAs in {} modules): module {} fetched {} times; all fetches {:?}", r, sc.cas.len(), used.len(), m, n, counts));
        }
        for m in &used {
            let name = format!("{}/repo", host(*m));
            if !counts.contains_key(&name) {
                return Verdict::fail("C37/engine/never-fetched", format!("engine run {}: module {} holds publication points but was not fetched; fetches {:?}", r, name, counts));
            }
        }
    }
    Verdict::Pass
}

fn engine_strategy() -> impl Strategy<Value = EngineCase> {
    (prop::collection::vec(0u8..3, 6..=12), 1u8..=8, 1u8..=2).prop_map(|(mut modules, fanout, runs)| {
        // most CAs share module 0
        for (i, m) in modules.iter_mut().enumerate() {
            if i % 3 != 2 {
                *m = 0;
            }
        }
        EngineCase { modules, fanout, runs }
    })
}

pub fn run(ctx: &Ctx, rep: &mut Report, replay: Option<&serde_json::Value>) {
    rep.rule("2-4 threads call the real collector::Run::repository(ca) + Repository::load_object for CA certificates (validated self-signed certificates issued by the harness) whose caRepository lies in one shared rsync module (3 CAs), another module on the same host (1) or another host (2); transport = fake rsync subprocess started by the unmodified RsyncCommand, its log counts invocations per module; before every run the server publishes a new version of every object (the local copy holds the previous one); schedules over the try-lock yield points of updated/running/module mutex/metrics: (dfs) every schedule of 5 two-thread programs (thorough +2, capped), (sched) generated programs 2-4 threads x 1-2 requests with generated choice strings, (stress) 8 uncontrolled threads against a fetch that takes 30 ms; oracle: per run every requested module fetched exactly once (log and rsync metrics), every object read right after repository() returned equals the server's current version; non-trivial = a second requester of a module makes its `running` entry between the fetcher's marker release and its completion record; distinct by program+schedule");
    rep.assume("one controlled thread runs at a time; the fetch itself (subprocess) runs inside one scheduling step because RsyncCommand::update contains no yield point, so 'reading during a fetch' is only exercised by the uncontrolled stress rounds");
    rep.assume("RRDP repositories are served by an in-harness HTTPS server reached through routinator's own HTTP client (rrdp-proxy = loopback CONNECT proxy, rrdp-root-cert = test CA); every run sees a new session, so the update is always notification + snapshot (delta processing is not part of this property)");
    crate::hist::init_process();
    if let Some(v) = replay {
        let t: Tagged<serde_json::Value> = serde_json::from_value(v.clone()).expect("replay");
        match t.sub.as_str() {
            "sched" => {
                let world = World::new(ctx, false);
                DIRECTED.with(|d| d.set(true));
                run_case(ctx, rep, "sched", &serde_json::from_value::<Case>(t.case).expect("case"), |c, i| prop_sched(&world, c, i));
            }
            "stress" => run_stress(ctx, rep),
            "engine" => run_case(ctx, rep, "engine", &serde_json::from_value::<EngineCase>(t.case).expect("case"), |c, i| prop_engine(ctx, c, i)),
            other => panic!("unknown sub {}", other),
        }
        return;
    }
    let world = World::new(ctx, false);
    world.selftest();
    // RV_SKIP_DIRECTED=1 (testing aid): let the bulk search find the shape on its own
    if std::env::var_os("RV_SKIP_DIRECTED").is_none() {
        DIRECTED.with(|d| d.set(true));
        run_case(ctx, rep, "sched", &directed_known(), |c, i| prop_sched(&world, c, i));
        DIRECTED.with(|d| d.set(false));
    }
    if rep.violated() {
        return;
    }
    run_dfs(ctx, rep, &world);
    if rep.violated() {
        return;
    }
    run_prop(ctx, rep, "sched", ctx.tier.pick(80, 1_000), case_strategy(false), |c, i| prop_sched(&world, c, i));
    flush_excluded(rep);
    if rep.violated() {
        return;
    }
    run_prop_salted(ctx, rep, "sched", "sched-rrdp", ctx.tier.pick(600, 6_000), case_strategy(true), |c, i| prop_sched(&world, c, i));
    if rep.violated() {
        return;
    }
    run_stress(ctx, rep);
    if rep.violated() {
        return;
    }
    run_prop(ctx, rep, "engine", ctx.tier.pick(6, 60), engine_strategy(), |c, i| prop_engine(ctx, c, i));
}
