//! C41 A broken repository affects only its own subtree.

use std::collections::BTreeSet;

use proptest::prelude::*;

use crate::core::*;
use crate::erpki::*;
use crate::erun::*;
use crate::escen::*;
use crate::pay::MItem;

#[derive(serde::Serialize, serde::Deserialize, Clone, Debug)]
pub struct Case {
    pub sc: Scenario,
    pub module: usize,
    pub kind: u8,
    pub warm: bool,
}

fn case(words: &[u16]) -> Case {
    let p = Profile { max_cas: 8, max_tals: 2, max_objs: 4, versions: 1, fault_16: 1, obj_faults: true, cert_faults: false, pp_faults: false, vary_cfg: true, modules: 3 };
    let mut sc = single_run(words, &p);
    sc.cfg.unsafe_vrps = [2u8, 1, 0][(words.first().copied().unwrap_or(0) % 3) as usize];
    let mut d = D::new(words);
    for _ in 0..5 {
        d.next();
    }
    let module = d.below(3);
    let kind = d.below(5) as u8;
    let warm = d.chance(1, 2);
    Case { sc, module, kind, warm }
}

/// CAs published in the broken module, and their descendants.
fn affected(sc: &Scenario, module: usize) -> BTreeSet<usize> {
    let mut res = BTreeSet::new();
    for (i, ca) in sc.cas.iter().enumerate() {
        if ca.module == module {
            for d in descendants(sc, i) {
                res.insert(d);
            }
        }
    }
    res
}

fn run_world(c: &Case, faulty: bool) -> Result<BTreeSet<MItem>, String> {
    let mut world = World::new(&c.sc, scratch_base());
    let step = c.sc.steps[0].clone();
    let ex = empty_exceptions();
    if c.warm {
        world.publish(&step);
        world.run(false, &ex)?;
    }
    world.publish(&step);
    if faulty {
        world.sabotage(c.module, c.kind);
    }
    let out = world.run(false, &ex)?;
    Ok(out.payload.items().into_iter().collect())
}

fn prop(c: &Case, info: &mut CaseInfo) -> Verdict {
    let sc = &c.sc;
    let aff = affected(sc, c.module);
    let owners = owner_map(sc);
    let unaffected_with_payload = (0..sc.cas.len()).any(|i| !aff.contains(&i) && sc.cas[i].versions.iter().any(|v| !v.objs.is_empty()));
    let hosts_ca_with_descendants_elsewhere = sc.cas.iter().enumerate().any(|(i, ca)| ca.module == c.module && descendants(sc, i).iter().any(|d| sc.cas[*d].module != c.module));
    info.nontrivial = !aff.is_empty() && unaffected_with_payload;
    info.class(format!("fault_kind_{}", c.kind));
    info.class(if c.warm { "warm_cache" } else { "empty_cache" });
    if hosts_ca_with_descendants_elsewhere {
        info.class("descendants_in_other_repository");
    }
    let clean = match run_world(c, false) {
        Ok(x) => x,
        Err(e) => return Verdict::fail("C41/clean-run-failed", e),
    };
    let faulty = match run_world(c, true) {
        Ok(x) => x,
        Err(e) => return Verdict::fail("C41/run-fails-on-broken-repository", format!("module {} kind {}: {}", c.module, c.kind, e)),
    };
    // the affected CAs' resources (for the unsafe filter under reject): items inside them may be removed
    let in_affected_space = |it: &MItem| -> bool {
        match owners.get(it) {
            Some((ca, _, _)) => aff.contains(ca),
            None => true,
        }
    };
    for it in clean.symmetric_difference(&faulty) {
        if !in_affected_space(it) {
            return Verdict::fail(
                "C41/unrelated-payload-changed",
                format!("item {:?} of CA {:?} differs between the clean and the faulty run although module {} (fault kind {}) hosts neither that CA nor an ancestor; affected CAs {:?}", it, owners.get(it), c.module, c.kind, aff),
            );
        }
    }
    Verdict::Pass
}

pub fn run(ctx: &Ctx, rep: &mut Report, replay: Option<&serde_json::Value>) {
    rep.rule("pairs of runs over identical E-rpki trees (1-2 TALs, up to 8 CAs over 3 rsync modules) from identical pre-states (empty or warmed cache): one clean, one where a chosen module is unreachable / serves garbage / serves truncated files / withholds everything but manifests / serves files with flipped bytes; metamorphic oracle: the run succeeds and every item owned by a CA that is neither published in the broken module nor a descendant of one is served identically in both runs; non-trivial = the broken module hosts a CA and an unrelated CA with payload exists; distinct by serialised case");
    rep.assume("slots of different CAs never overlap, so the unsafe-VRP filter can only remove items of affected CAs (C08 covers overlapping resources)");
    ctx.shrink_iters.store(100, std::sync::atomic::Ordering::Relaxed);
    if let Some(v) = replay {
        let t: Tagged<Case> = serde_json::from_value(v.clone()).expect("replay");
        run_case(ctx, rep, &t.sub, &t.case, prop);
        return;
    }
    run_prop_par(ctx, rep, "pairs", ctx.tier.pick(200, 4000), 8, || genome(200).prop_map(|w| case(&w)), prop);
}
