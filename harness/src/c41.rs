//! C41 A broken repository affects only its own subtree.

use std::collections::BTreeSet;

use proptest::prelude::*;

use crate::core::*;
use crate::erpki::*;
use crate::erun::*;
use crate::escen::*;
use crate::pay::MItem;

#[derive(serde::Serialize, serde::Deserialize, Clone, Debug)]
pub struct Case {
    pub sc: Scenario,
    pub module: usize,
    /// 0..=4 transport / content sabotage of the module (see World::sabotage);
    /// 5 = the broken repository publishes a CA chain deeper than max-ca-depth;
    /// 6 = a CA in the broken repository issues a certificate whose SIA claims a publication point
    ///     below its own manifest *file* (`<manifest URI>/`)
    pub kind: u8,
    pub warm: bool,
}

pub const KEY_NESTED_SIA: &str = "C41/run-fails-on-broken-repository/sia-below-a-manifest-file";

/// The scenario the faulty run uses (kinds 5 and 6 add CAs to the broken repository).
fn faulty_scenario(c: &Case) -> Scenario {
    let mut sc = c.sc.clone();
    let host_ca = sc.cas.iter().position(|ca| ca.module == c.module);
    let Some(host_ca) = host_ca else { return sc };
    let mk_ver = || Version { number: 5, this_off: -7200, next_off: 86400, crl_next_off: 86400, ee_after_off: 86400 * 7, objs: vec![Obj { kind: ObjKind::Roa { extra: 0, maxlen_delta: 0, v6: false }, not_after: 86400 * 7, fault: None }], fault: None, omit_children: vec![] };
    match c.kind {
        5 => {
            // a chain of max_depth + 2 more CAs, all published in the broken module
            sc.cfg.max_depth = sc.cfg.max_depth.min(6);
            let mut parent = host_ca;
            let extra = sc.cfg.max_depth + 2;
            for _ in 0..extra {
                let i = sc.cas.len();
                if i >= 30 {
                    break;
                }
                sc.cas.push(Ca { parent: Some(parent), key: i, module: c.module, not_after: 86400 * 365, cert_fault: None, versions: vec![mk_ver()], extra_res: None, ta_alt: vec![], sia_under_parent_mft: false, rrdp: None });
                parent = i;
            }
        }
        6 => {
            let i = sc.cas.len();
            sc.cas.push(Ca { parent: Some(host_ca), key: i, module: c.module, not_after: 86400 * 365, cert_fault: None, versions: vec![mk_ver()], extra_res: None, ta_alt: vec![], sia_under_parent_mft: true, rrdp: None });
        }
        _ => {}
    }
    for st in sc.steps.iter_mut() {
        st.publish = vec![0; sc.cas.len()];
    }
    sc
}

fn case(words: &[u16]) -> Case {
    let p = Profile { max_cas: 8, max_tals: 2, max_objs: 4, versions: 1, fault_16: 1, obj_faults: true, cert_faults: false, pp_faults: false, vary_cfg: true, modules: 3, rrdp_16: 0, rrdp_repos: 2 };
    let mut sc = single_run(words, &p);
    sc.cfg.unsafe_vrps = [2u8, 1, 0][(words.first().copied().unwrap_or(0) % 3) as usize];
    let mut d = D::new(words);
    for _ in 0..5 {
        d.next();
    }
    let module = d.below(3);
    let kind = d.below(7) as u8;
    let warm = d.chance(1, 2);
    // In half of the cases an ancestor announces, in a ROA of its own, the address space it delegated
    // to one of its descendants: such payload overlaps the resources of a CA that the fault may get
    // rejected, and only the unsafe-vrps policy `reject` may remove it.
    if d.chance(1, 2) {
        let non_roots: Vec<usize> = (0..sc.cas.len()).filter(|i| sc.cas[*i].parent.is_some()).collect();
        if !non_roots.is_empty() {
            let x = non_roots[d.below(non_roots.len())];
            let anc = if d.chance(1, 2) { root_of(&sc, x) } else { sc.cas[x].parent.unwrap() };
            let r = own_res(x);
            let prefixes: Vec<(std::net::IpAddr, u8, Option<u8>)> = vec![(std::net::IpAddr::V4(r.v4[0].0), r.v4[0].1, None), (std::net::IpAddr::V6(r.v6[0].0), r.v6[0].1, Some(56))];
            if let Some(v) = sc.cas[anc].versions.get_mut(0) {
                v.objs.push(Obj { kind: ObjKind::RoaRaw { asn: 64990, prefixes }, not_after: 86400 * 30, fault: None });
            }
        }
    }
    Case { sc, module, kind, warm }
}


/// Cases aimed at the trust anchors themselves: two TALs whose trust-anchor certificates live in
/// different rsync modules, a cold cache, one of the two modules broken (so that TAL has no usable
/// trust anchor at all), mostly a single validation thread.
fn ta_case(words: &[u16]) -> Option<Case> {
    let mut c = case(words);
    let roots: Vec<usize> = c.sc.cas.iter().enumerate().filter(|(_, ca)| ca.parent.is_none()).map(|(i, _)| i).collect();
    if roots.len() < 2 {
        return None;
    }
    let mut d = D::new(words);
    for _ in 0..9 {
        d.next();
    }
    c.sc.cas[roots[0]].module = 0;
    c.sc.cas[roots[1]].module = 1;
    c.module = d.below(2);
    c.kind = d.below(5) as u8;
    c.warm = false;
    c.sc.cfg.threads = d.pick(&[1usize, 1, 2]);
    Some(c)
}

/// CAs published in the broken module, and their descendants.
fn affected(sc: &Scenario, module: usize) -> BTreeSet<usize> {
    let mut res = BTreeSet::new();
    for (i, ca) in sc.cas.iter().enumerate() {
        if ca.module == module {
            for d in descendants(sc, i) {
                res.insert(d);
            }
        }
    }
    res
}

fn run_world(c: &Case, faulty: bool) -> Result<BTreeSet<MItem>, String> {
    let sc = if faulty { faulty_scenario(c) } else { c.sc.clone() };
    if faulty && c.kind >= 5 && c.kind != 6 {
        // the depth bound must be the same in both runs
    }
    let mut sc_used = sc.clone();
    if c.kind == 5 {
        sc_used.cfg.max_depth = sc_used.cfg.max_depth.min(6);
    }
    let mut world = World::new(&sc_used, scratch_base());
    let step = sc_used.steps[0].clone();
    let ex = empty_exceptions();
    if c.warm {
        world.publish(&step);
        world.run(false, &ex)?;
    }
    world.publish(&step);
    if faulty && c.kind < 5 {
        world.sabotage(c.module, c.kind);
    }
    let out = world.run(false, &ex)?;
    Ok(out.payload.items().into_iter().collect())
}

fn prop(c: &Case, info: &mut CaseInfo) -> Verdict {
    prop_opt(c, info, false)
}

fn prop_opt(c: &Case, info: &mut CaseInfo, run_known: bool) -> Verdict {
    if c.kind == 6 && !run_known && is_listed_known("C41", KEY_NESTED_SIA) {
        return Verdict::Dropped(format!("excluded-known-shape:{}", KEY_NESTED_SIA));
    }
    let sc = &c.sc;
    let aff = affected(sc, c.module);
    let owners = owner_map(sc);
    let unaffected_with_payload = (0..sc.cas.len()).any(|i| !aff.contains(&i) && sc.cas[i].versions.iter().any(|v| !v.objs.is_empty()));
    let hosts_ca_with_descendants_elsewhere = sc.cas.iter().enumerate().any(|(i, ca)| ca.module == c.module && descendants(sc, i).iter().any(|d| sc.cas[*d].module != c.module));
    info.nontrivial = !aff.is_empty() && unaffected_with_payload;
    info.class(format!("fault_kind_{}", c.kind));
    info.class(if c.warm { "warm_cache" } else { "empty_cache" });
    if hosts_ca_with_descendants_elsewhere {
        info.class("descendants_in_other_repository");
    }
    let clean = match run_world(c, false) {
        Ok(x) => x,
        Err(e) => return Verdict::fail("C41/clean-run-failed", e),
    };
    let faulty = match run_world(c, true) {
        Ok(x) => x,
        Err(e) => {
            let key = if c.kind == 6 { KEY_NESTED_SIA.to_string() } else { format!("C41/run-fails-on-broken-repository/kind={}", c.kind) };
            return Verdict::fail(key, format!("module {} kind {}: {}", c.module, c.kind, e));
        }
    };
    // the affected CAs' resources (for the unsafe filter under reject): items inside them may be removed
    let in_affected_space = |it: &MItem| -> bool {
        match owners.get(it) {
            Some((ca, _, _)) => aff.contains(ca),
            None => true,
        }
    };
    // address space on the certificates of the affected CAs: under `reject` (and only then) payload of
    // other CAs overlapping it may disappear when such a CA is rejected
    let overlaps_affected = |it: &MItem| -> bool {
        let MItem::Origin(o) = it else { return false };
        let (lo, hi) = addr_range(o.bits(), o.len, o.is_v4());
        aff.iter().any(|a| {
            let res = cert_res(sc, *a);
            res.v4.iter().any(|(ba, bl)| {
                let (blo, bhi) = addr_range((u32::from(*ba) as u128) << 96, *bl, true);
                o.is_v4() && lo <= bhi && blo <= hi
            }) || res.v6.iter().any(|(ba, bl)| {
                let (blo, bhi) = addr_range(u128::from(*ba), *bl, false);
                !o.is_v4() && lo <= bhi && blo <= hi
            })
        })
    };
    let mut overlapping_unrelated = false;
    for it in clean.iter().chain(faulty.iter()) {
        if !in_affected_space(it) && overlaps_affected(it) {
            overlapping_unrelated = true;
        }
    }
    if overlapping_unrelated {
        info.class("unrelated_payload_overlaps_affected_resources");
    }
    for it in clean.symmetric_difference(&faulty) {
        if !in_affected_space(it) && sc.cfg.unsafe_vrps == 0 && overlaps_affected(it) {
            info.class("removed_by_unsafe_vrps_reject");
            continue;
        }
        if !in_affected_space(it) {
            return Verdict::fail(
                "C41/unrelated-payload-changed",
                format!("item {:?} of CA {:?} differs between the clean and the faulty run although module {} (fault kind {}) hosts neither that CA nor an ancestor; affected CAs {:?}", it, owners.get(it), c.module, c.kind, aff),
            );
        }
    }
    Verdict::Pass
}

pub fn run(ctx: &Ctx, rep: &mut Report, replay: Option<&serde_json::Value>) {
    rep.rule("pairs of runs over identical E-rpki trees (1-2 TALs, up to 8 CAs over 3 rsync modules) from identical pre-states (empty or warmed cache): one clean, one where a chosen module is unreachable / serves garbage / serves truncated files / withholds everything but manifests / serves files with flipped bytes / additionally publishes a CA chain deeper than max-ca-depth / contains a CA certificate whose SIA claims a publication point below the issuer's manifest file; metamorphic oracle: the run succeeds and every item owned by a CA that is neither published in the broken module nor a descendant of one is served identically in both runs; non-trivial = the broken module hosts a CA and an unrelated CA with payload exists; plus 64 (thorough 1000) cases with two TALs whose trust-anchor certificates sit in different modules, a cold cache, one of these modules broken and mostly one validation thread (a TAL without any usable trust anchor); distinct by serialised case");
    rep.assume("own slots of different CAs never overlap; in half of the cases an ancestor additionally announces a descendant's delegated space in its own ROA — such overlapping payload may differ between the runs only under unsafe-vrps = reject (the documented filter), never under warn or accept");
    ctx.shrink_iters.store(100, std::sync::atomic::Ordering::Relaxed);
    if let Some(v) = replay {
        if v.get("sub").and_then(|s| s.as_str()) == Some("rrdp") {
            let t: Tagged<RCase> = serde_json::from_value(v.clone()).expect("replay");
            run_case(ctx, rep, &t.sub, &t.case, rprop);
            return;
        }
        let t: Tagged<Case> = serde_json::from_value(v.clone()).expect("replay");
        run_case(ctx, rep, &t.sub, &t.case, prop);
        return;
    }
    // directed representative of the nested-SIA shape (re-confirms a listed finding, or guards the fix)
    {
        let mut d = case(&[7u16; 200]);
        d.kind = 6;
        d.module = d.sc.cas[0].module;
        d.warm = false;
        run_case(ctx, rep, "pairs", &d, |c, i| prop_opt(c, i, true));
    }
    run_prop_par(ctx, rep, "pairs", ctx.tier.pick(200, 4000), 8, || genome(200).prop_map(|w| case(&w)), prop);
    if !rep.violated() {
        // same oracle and case type (replays as "pairs"): a whole TAL loses its trust anchor
        run_prop_par(ctx, rep, "pairs", ctx.tier.pick(64, 1000), 8, || genome(200).prop_filter_map("two TALs", |w| ta_case(&w)), |c, i| {
            i.class("ta_module_broken");
            i.class(format!("threads={}", c.sc.cfg.threads));
            prop(c, i)
        });
    }
    rep.rule("(rrdp) pairs of runs over identical trees in which every CA is published through one of 2 RRDP repositories with chance 1/2 (rrdp-fallback in {stale, never, new}), from identical pre-states (empty cache, or warmed cache followed by a new RRDP session so that the repository must be fetched again): one clean, one where a chosen RRDP repository answers 500 for the notification / serves garbage as snapshot / lists wrong hashes / cuts the snapshot transfer / answers 404 for everything; same metamorphic oracle: the run succeeds and every item of a CA that is neither published through the broken repository nor a descendant of such a CA is served identically; non-trivial = the broken repository publishes a CA whose chain is intact and an unrelated CA with payload exists");
    run_prop_par(ctx, rep, "rrdp", ctx.tier.pick(100, 2000), 8, || (genome(200), rrdp_genome(), genome(4)).prop_map(|(w, r, k)| rcase(&w, &r, &k)), rprop);
}

/// Sub-check "rrdp": the broken repository is an RRDP repository.
#[derive(serde::Serialize, serde::Deserialize, Clone, Debug)]
pub struct RCase {
    pub sc: Scenario,
    pub repo: usize,
    /// see World::sabotage_rrdp
    pub kind: u8,
    pub warm: bool,
}

fn rcase(words: &[u16], rwords: &[u16], kwords: &[u16]) -> RCase {
    let p = Profile { max_cas: 8, max_tals: 2, max_objs: 4, versions: 1, fault_16: 1, obj_faults: true, cert_faults: false, pp_faults: false, vary_cfg: true, modules: 3, rrdp_16: 8, rrdp_repos: 2 };
    let mut sc = single_run_rrdp(words, rwords, &p, 0);
    sc.steps[0].fail_modules.clear();
    sc.cfg.unsafe_vrps = [2u8, 1, 0][(words.first().copied().unwrap_or(0) % 3) as usize];
    let mut d = D::new(kwords);
    let repo = d.below(2);
    let kind = d.below(5) as u8;
    let warm = d.chance(1, 2);
    RCase { sc, repo, kind, warm }
}

fn affected_rrdp(sc: &Scenario, repo: usize) -> BTreeSet<usize> {
    let mut res = BTreeSet::new();
    for (i, ca) in sc.cas.iter().enumerate() {
        if ca.rrdp == Some(repo) {
            for d in descendants(sc, i) {
                res.insert(d);
            }
        }
    }
    res
}

fn run_world_rrdp(c: &RCase, faulty: bool) -> Result<BTreeSet<MItem>, String> {
    let mut world = World::new(&c.sc, scratch_base());
    let step = c.sc.steps[0].clone();
    let ex = empty_exceptions();
    if c.warm {
        world.publish(&step);
        world.run(false, &ex)?;
    }
    world.publish(&step);
    if c.warm {
        // in both worlds: without a change on the server the client would not fetch anything
        world.rrdp_new_session(c.repo);
    }
    if faulty {
        world.sabotage_rrdp(c.repo, c.kind);
    }
    let out = world.run(false, &ex)?;
    Ok(out.payload.items().into_iter().collect())
}

fn rprop(c: &RCase, info: &mut CaseInfo) -> Verdict {
    let sc = &c.sc;
    let aff = affected_rrdp(sc, c.repo);
    let owners = owner_map(sc);
    let unaffected_with_payload = (0..sc.cas.len()).any(|i| !aff.contains(&i) && sc.cas[i].versions.iter().any(|v| !v.objs.is_empty()));
    // the model tells whether a CA of the broken repository is reached at all in the clean run
    let exp = model_step(sc, &sc.steps[0], &mut ModelState::default());
    let reached = sc.cas.iter().enumerate().any(|(i, ca)| ca.rrdp == Some(c.repo) && exp.via.contains_key(&i));
    info.nontrivial = reached && unaffected_with_payload;
    info.class(format!("rrdp_fault_kind_{}", c.kind));
    info.class(if c.warm { "warm_cache" } else { "empty_cache" });
    info.class(format!("rrdp:policy_{}", ["never", "stale", "new"][(sc.cfg.rrdp_fallback as usize).min(2)]));
    let clean = match run_world_rrdp(c, false) {
        Ok(x) => x,
        Err(e) => return Verdict::fail("C41/rrdp/clean-run-failed", e),
    };
    let faulty = match run_world_rrdp(c, true) {
        Ok(x) => x,
        Err(e) => return Verdict::fail(format!("C41/rrdp/run-fails-on-broken-repository/kind={}", c.kind), format!("RRDP repository {} kind {}: {}", c.repo, c.kind, e)),
    };
    for it in clean.symmetric_difference(&faulty) {
        let in_affected_space = match owners.get(it) {
            Some((ca, _, _)) => aff.contains(ca),
            None => true,
        };
        if !in_affected_space {
            return Verdict::fail("C41/rrdp/unrelated-payload-changed", format!("item {:?} of CA {:?} differs between the clean and the faulty run although RRDP repository {} (fault kind {}) publishes neither that CA nor an ancestor; affected CAs {:?}", it, owners.get(it), c.repo, c.kind, aff));
        }
    }
    if clean != faulty {
        info.class("rrdp:affected_payload_differs");
    }
    Verdict::Pass
}
