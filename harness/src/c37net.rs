//! Minimal in-harness RRDP server for C37: a loopback listener that plays the proxy
//! (`rrdp_proxies = ["http://127.0.0.1:<port>"]`): it answers `CONNECT host:443` with 200, then
//! terminates TLS itself (rustls, certificate chain `assets/tls/leaf.pem` for `*.rpki.test`, trusted
//! by routinator through `rrdp_root_certs = [assets/tls/ca.pem]`) and serves `GET` requests from a
//! route table `(host, path) -> body`. Every request is logged (host, path) so that the number of
//! fetches per repository is an observed fact. No DNS, no hooks; the port is dynamic.

use std::collections::{BTreeMap, HashMap};
use std::io::{Read, Write};
use std::net::{TcpListener, TcpStream};
use std::path::PathBuf;
use std::sync::atomic::{AtomicBool, Ordering};
use std::sync::{Arc, Mutex};
use std::time::Duration;

use tokio_rustls::rustls;

use crate::core::verif_dir;

struct Shared {
    routes: Mutex<HashMap<(String, String), Arc<Vec<u8>>>>,
    log: Mutex<Vec<(String, String)>>,
    stop: AtomicBool,
}

pub struct MiniHttps {
    port: u16,
    shared: Arc<Shared>,
}

pub fn ca_path() -> PathBuf {
    verif_dir().join("assets/tls/ca.pem")
}

fn tls_config() -> Arc<rustls::ServerConfig> {
    let dir = verif_dir().join("assets/tls");
    let cert_pem = std::fs::read(dir.join("leaf.pem")).expect("assets/tls/leaf.pem");
    let key_pem = std::fs::read(dir.join("leaf.key")).expect("assets/tls/leaf.key");
    let certs: Vec<_> = rustls_pemfile::certs(&mut &cert_pem[..]).collect::<Result<_, _>>().expect("leaf.pem parses");
    let key = rustls_pemfile::private_key(&mut &key_pem[..]).expect("leaf.key parses").expect("leaf.key holds a key");
    let cfg = rustls::ServerConfig::builder_with_provider(Arc::new(rustls::crypto::ring::default_provider()))
        .with_safe_default_protocol_versions()
        .expect("protocol versions")
        .with_no_client_auth()
        .with_single_cert(certs, key)
        .expect("server certificate");
    Arc::new(cfg)
}

impl MiniHttps {
    pub fn start() -> MiniHttps {
        let listener = TcpListener::bind(("127.0.0.1", 0)).expect("bind loopback");
        let port = listener.local_addr().expect("local addr").port();
        let shared = Arc::new(Shared { routes: Default::default(), log: Default::default(), stop: AtomicBool::new(false) });
        let tls = tls_config();
        let sh = shared.clone();
        std::thread::Builder::new()
            .name("c37-https-accept".into())
            .spawn(move || {
                for conn in listener.incoming() {
                    if sh.stop.load(Ordering::SeqCst) {
                        break;
                    }
                    let Ok(conn) = conn else { continue };
                    let (sh, tls) = (sh.clone(), tls.clone());
                    let _ = std::thread::Builder::new().name("c37-https-conn".into()).spawn(move || {
                        let _ = serve(conn, &sh, tls);
                    });
                }
            })
            .expect("accept thread");
        MiniHttps { port, shared }
    }

    pub fn proxy_url(&self) -> String {
        format!("http://127.0.0.1:{}", self.port)
    }

    pub fn set(&self, host: &str, path: &str, body: Vec<u8>) {
        self.shared.routes.lock().unwrap().insert((host.to_ascii_lowercase(), path.to_string()), Arc::new(body));
    }

    pub fn clear_log(&self) {
        self.shared.log.lock().unwrap().clear();
    }

    /// Requests per (host, path) since the last `clear_log`.
    pub fn counts(&self) -> BTreeMap<(String, String), usize> {
        let mut m = BTreeMap::new();
        for r in self.shared.log.lock().unwrap().iter() {
            *m.entry(r.clone()).or_default() += 1;
        }
        m
    }
}

impl Drop for MiniHttps {
    fn drop(&mut self) {
        self.shared.stop.store(true, Ordering::SeqCst);
        let _ = TcpStream::connect(("127.0.0.1", self.port));
    }
}

fn head_end(buf: &[u8]) -> Option<usize> {
    buf.windows(4).position(|w| w == b"\r\n\r\n").map(|p| p + 4)
}

fn serve(mut tcp: TcpStream, sh: &Arc<Shared>, tls: Arc<rustls::ServerConfig>) -> std::io::Result<()> {
    tcp.set_read_timeout(Some(Duration::from_secs(60)))?;
    tcp.set_write_timeout(Some(Duration::from_secs(60)))?;
    tcp.set_nodelay(true)?;
    // proxy role: read the CONNECT head byte-wise so that nothing of the TLS hello is consumed
    let mut head = Vec::new();
    let mut one = [0u8; 1];
    while head_end(&head).is_none() {
        if head.len() > 16 * 1024 || tcp.read(&mut one)? == 0 {
            return Ok(());
        }
        head.push(one[0]);
    }
    let text = String::from_utf8_lossy(&head).to_string();
    let first = text.lines().next().unwrap_or("");
    let mut parts = first.split(' ');
    if parts.next() != Some("CONNECT") {
        tcp.write_all(b"HTTP/1.1 400 Bad Request\r\nContent-Length: 0\r\nConnection: close\r\n\r\n")?;
        return Ok(());
    }
    let authority = parts.next().unwrap_or("").to_ascii_lowercase();
    let host = authority.rsplit_once(':').map(|(h, _)| h.to_string()).unwrap_or(authority);
    tcp.write_all(b"HTTP/1.1 200 Connection established\r\n\r\n")?;
    let conn = rustls::ServerConnection::new(tls).map_err(std::io::Error::other)?;
    let mut stream = rustls::StreamOwned::new(conn, tcp);
    let mut buf: Vec<u8> = Vec::new();
    loop {
        // one request head
        let end = loop {
            if let Some(end) = head_end(&buf) {
                break end;
            }
            let mut chunk = [0u8; 4096];
            match stream.read(&mut chunk) {
                Ok(0) | Err(_) => return Ok(()),
                Ok(n) => buf.extend_from_slice(&chunk[..n]),
            }
        };
        let head: Vec<u8> = buf.drain(..end).collect();
        let text = String::from_utf8_lossy(&head).to_string();
        let first = text.lines().next().unwrap_or("");
        let mut parts = first.split(' ');
        let method = parts.next().unwrap_or("").to_string();
        let path = parts.next().unwrap_or("").to_string();
        sh.log.lock().unwrap().push((host.clone(), path.clone()));
        let body = sh.routes.lock().unwrap().get(&(host.clone(), path.clone())).cloned();
        match (method.as_str(), body) {
            ("GET", Some(body)) => {
                stream.write_all(format!("HTTP/1.1 200 OK\r\nContent-Type: application/xml\r\nContent-Length: {}\r\n\r\n", body.len()).as_bytes())?;
                stream.write_all(&body)?;
            }
            _ => {
                stream.write_all(b"HTTP/1.1 404 Not Found\r\nContent-Length: 0\r\n\r\n")?;
            }
        }
        stream.flush()?;
    }
}
