//! C13 Serial-based synchronisation is exact or refused.
//!
//! A generated history of validation results is installed into a real `SharedHistory`; after
//! every step a client presents (session, serial) pairs through the RTR source (`diff`) and
//! through `GET /json-delta`. The model keeps every issued (serial -> data set).

use proptest::prelude::*;
use routinator::config::Config;
use routinator::payload::SharedHistory;
use rpki::rtr::server::NotifySender;
use serde::{Deserialize, Serialize};

use crate::core::*;
use crate::hist::*;
use crate::pay::*;

pub const KEY_HALF_SPACE: &str = "C13/empty-delta-for-unissued-serial/retained=1/offset=2^31";
pub const KEY_SERIAL0: &str = "C13/refused-in-window/client-serial=0/history-not-full";

#[derive(Serialize, Deserialize, Clone, Debug)]
pub struct Case {
    /// history-size (>= 1; 0 belongs to C14).
    pub keep: usize,
    /// Validation results in order; the first is the initial data set (serial 0).
    pub sets: Vec<MSet>,
    /// Extra client serials, as offsets added to the current serial (wrapping).
    pub extra: Vec<u32>,
    /// Extra foreign sessions, as offsets added to the own session (wrapping, non-zero).
    pub sessions: Vec<u64>,
    /// Key of the known-finding shape that is NOT excluded (directed representatives only).
    #[serde(default)]
    pub known: Option<String>,
}

/// Offsets (client serial minus current serial, wrapping) that are always queried.
fn boundary_offsets(keep: usize) -> Vec<u32> {
    let k = keep as u32;
    let mut v: Vec<u32> = Vec::new();
    for d in 0..=(k + 2) {
        v.push(0u32.wrapping_sub(d)); // S, S-1, ..., S-(K+2)
    }
    v.extend([1, 2, 3, 0x7FFF_FFFF, 0x8000_0000, 0x8000_0001, 0x7FFF_FFFE]);
    for d in 0..=(k + 1) {
        v.push(0x8000_0000u32.wrapping_sub(d)); // -2^31 - d  (== 2^31 - d)
        v.push(0x8000_0000u32.wrapping_add(d));
    }
    v.push(u32::MAX);
    v.sort_unstable();
    v.dedup();
    v
}

fn offset_class(off: u32) -> &'static str {
    match off {
        0 => "0",
        0x8000_0000 => "2^31",
        1..=0x7FFF_FFFF => "ahead",
        _ => "behind",
    }
}

struct World<'a> {
    http: &'a Http,
    config: &'a Config,
    kit: &'a crate::fmtx::Kit,
}

fn judge(world: &World<'_>, case: &Case, rep_excl: &std::cell::RefCell<std::collections::BTreeMap<&'static str, u64>>, info: &mut CaseInfo) -> Verdict {
    let keep = case.keep;
    if keep == 0 || world.config.history_size != keep {
        return Verdict::Dropped("bad_keep".into());
    }
    info.class(format!("keep={}", keep));
    let history = SharedHistory::from_config(world.config);
    let notify = NotifySender::new();
    let handler = world.http.handler(world.config, &history, &notify);
    let session = history.read().session();
    let sess16 = session as u16;
    let offsets = {
        let mut o = boundary_offsets(keep);
        o.extend(case.extra.iter().copied());
        o
    };
    let mut issued: Vec<MSet> = Vec::new();
    let mut merged_served = false;
    let mut seen: std::collections::BTreeSet<&'static str> = Default::default();

    for (step, set) in case.sets.iter().enumerate() {
        install_full(world.kit, &history, world.config, set);
        if issued.last() != Some(set) {
            issued.push(set.clone());
        }
        let s = (issued.len() - 1) as u32;
        let cur = issued.last().unwrap();
        let retained = (s as usize).min(keep);
        let got_serial = serial_of(&history);
        if got_serial != s {
            return Verdict::fail("C13/model-serial-mismatch", format!("step {}: history serial {} but {} changes so far", step, got_serial, s));
        }

        for (qi, off) in offsets.iter().enumerate() {
            let c = s.wrapping_add(*off);
            let dist = s.wrapping_sub(c);
            let is_issued = c <= s;
            // Statement: current serial and the last history-size serials (current included) must be served.
            let must_serve = is_issued && (dist as usize) < keep;
            let shape_half = retained == 1 && *off == 0x8000_0000;
            let shape_serial0 = c == 0 && s >= 2 && (s as usize) < keep;
            if shape_half || shape_serial0 {
                let key = if shape_half { KEY_HALF_SPACE } else { KEY_SERIAL0 };
                if case.known.as_deref() != Some(key) && is_listed_known("C13", key) {
                    *rep_excl.borrow_mut().entry(key).or_default() += 1;
                    continue;
                }
            }
            let where_ = |obs: &str| format!("step {} S={} retained={} keep={} client serial {} (offset {:#x}) via {}", step, s, retained, keep, c, off, obs);

            // --- RTR source ---
            match rtr_diff(&history, sess16, c) {
                Some(d) => {
                    if !is_issued {
                        let key = if shape_half { KEY_HALF_SPACE.to_string() } else { format!("C13/delta-for-unissued-serial/retained={}/offset={}", retained.min(3), offset_class(*off)) };
                        return Verdict::fail(key, format!("{}: got a delta ({} actions, tagged serial {}) for a serial this session never issued", where_("rtr"), d.actions.len(), d.serial));
                    }
                    if d.serial != s || d.session != sess16 {
                        return Verdict::fail("C13/wrong-tag", format!("{}: delta tagged ({}, {}) but current is ({}, {})", where_("rtr"), d.session, d.serial, sess16, s));
                    }
                    if c == s && !d.actions.is_empty() {
                        return Verdict::fail("C13/current-serial-nonempty", format!("{}: {} actions for the current serial", where_("rtr"), d.actions.len()));
                    }
                    match issued[c as usize].apply(&d.actions) {
                        Ok(r) if r == *cur => {}
                        Ok(r) => return Verdict::fail("C13/delta-not-exact", format!("{}: data(c)+delta={:?} but current={:?}", where_("rtr"), r, cur)),
                        Err(e) => return Verdict::fail("C13/delta-not-applicable", format!("{}: {}", where_("rtr"), e)),
                    }
                    if dist >= 2 && !d.actions.is_empty() {
                        merged_served = true;
                    }
                    seen.insert(match dist {
                        0 => "q:served_current",
                        1 => "q:served_front",
                        _ => "q:served_merged",
                    });
                }
                None => {
                    if must_serve {
                        let key = if shape_serial0 { KEY_SERIAL0.to_string() } else { format!("C13/refused-in-window/distance={}", dist.min(3)) };
                        return Verdict::fail(key, format!("{}: refused although the serial is one of the last {} issued", where_("rtr"), keep));
                    }
                    seen.insert(if !is_issued {
                        if *off == 0x8000_0000 {
                            "q:refused_half_space"
                        } else if *off < 0x8000_0000 {
                            "q:refused_future"
                        } else {
                            "q:refused_never_issued_behind"
                        }
                    } else {
                        "q:refused_too_old"
                    });
                }
            }
            // foreign RTR session: always refused
            if qi % 4 == 0 {
                for fs in [sess16.wrapping_add(1), sess16 ^ 0x8000] {
                    if rtr_diff(&history, fs, c).is_some() {
                        return Verdict::fail("C13/foreign-session-served/rtr", format!("{}: session {} (own {}) got a delta", where_("rtr"), fs, sess16));
                    }
                }
                seen.insert("q:refused_foreign_session_rtr");
            }

            // --- HTTP /json-delta ---
            let doc = match get_delta(world.http, &handler, session, c) {
                Ok(d) => d,
                Err(e) => return Verdict::fail("C13/http-bad-response", format!("{}: {}", where_("http"), e)),
            };
            if doc.session != session || doc.serial != s {
                return Verdict::fail("C13/wrong-tag", format!("{}: document tagged ({}, {}) but current is ({}, {})", where_("http"), doc.session, doc.serial, session, s));
            }
            if doc.reset {
                if must_serve {
                    let key = if shape_serial0 { KEY_SERIAL0.to_string() } else { format!("C13/refused-in-window/distance={}", dist.min(3)) };
                    return Verdict::fail(key, format!("{}: reset document although the serial is one of the last {} issued", where_("http"), keep));
                }
                if !doc.withdrawn.is_empty() || MSet::from_items(doc.announced.iter().cloned()) != *cur || doc.announced.len() != cur.len() {
                    return Verdict::fail("C13/reset-not-current", format!("{}: reset document does not list the current data set: {:?} vs {:?}", where_("http"), doc.announced, cur));
                }
            } else {
                if !is_issued {
                    let key = if shape_half { KEY_HALF_SPACE.to_string() } else { format!("C13/delta-for-unissued-serial/retained={}/offset={}", retained.min(3), offset_class(*off)) };
                    return Verdict::fail(key, format!("{}: delta document for a serial this session never issued", where_("http")));
                }
                if doc.from_serial != Some(c) {
                    return Verdict::fail("C13/wrong-tag", format!("{}: fromSerial {:?}", where_("http"), doc.from_serial));
                }
                let actions = doc.actions();
                if c == s && !actions.is_empty() {
                    return Verdict::fail("C13/current-serial-nonempty", format!("{}: {} actions for the current serial", where_("http"), actions.len()));
                }
                match issued[c as usize].apply(&actions) {
                    Ok(r) if r == *cur => {}
                    Ok(r) => return Verdict::fail("C13/delta-not-exact", format!("{}: data(c)+delta={:?} but current={:?}", where_("http"), r, cur)),
                    Err(e) => return Verdict::fail("C13/delta-not-applicable", format!("{}: {}", where_("http"), e)),
                }
            }
            // foreign HTTP sessions (same RTR low bits included): always the reset document
            if qi % 4 == 0 {
                let mut foreign: Vec<u64> = vec![session.wrapping_add(1 << 16), session.wrapping_sub(1 << 16), session.wrapping_add(1), session & 0xFFFF];
                foreign.extend(case.sessions.iter().map(|d| session.wrapping_add(*d)));
                for fs in foreign {
                    if fs == session {
                        continue;
                    }
                    match get_delta(world.http, &handler, fs, c) {
                        Ok(d) if d.reset && d.session == session && d.serial == s && MSet::from_items(d.announced.iter().cloned()) == *cur => {}
                        Ok(d) => {
                            return Verdict::fail(
                                "C13/foreign-session-served/http",
                                format!("{}: session {} (own {}) answered reset={} session={} serial={} with {} announced / {} withdrawn", where_("http"), fs, session, d.reset, d.session, d.serial, d.announced.len(), d.withdrawn.len()),
                            )
                        }
                        Err(e) => return Verdict::fail("C13/http-bad-response", format!("{}: foreign session {}: {}", where_("http"), fs, e)),
                    }
                }
                seen.insert("q:refused_foreign_session_http");
            }
        }
    }
    for c in seen {
        info.class(c);
    }
    let changes = issued.len().saturating_sub(1);
    info.class(match changes {
        0 => "changes=0",
        1 => "changes=1",
        2..=5 => "changes=2-5",
        _ => "changes=6+",
    });
    info.class(if changes > keep { "history_overflowed" } else { "history_not_full" });
    if issued.iter().any(|x| !x.aspas.is_empty()) {
        info.class("with_aspas");
        let twice = [64496u32, 64497].iter().any(|c| issued.windows(2).filter(|w| w[0].aspas.get(c) != w[1].aspas.get(c)).count() >= 2);
        if twice {
            info.class("aspa_customer_changed_in_2+_versions");
        }
    }
    info.nt(merged_served);
    Verdict::Pass
}

pub fn case_strategy(max_updates: usize) -> impl Strategy<Value = Case> {
    (
        prop::sample::select(vec![1usize, 2, 3, 10]),
        prop_oneof![history_strategy(1, max_updates + 1, 8, 30), history_strategy_aspa(1, max_updates + 1, 6, 25)],
        prop::collection::vec(prop_oneof![any::<u32>(), (0u32..64).prop_map(|d| 0u32.wrapping_sub(d)), (0u32..64).prop_map(|d| 0x8000_0000u32.wrapping_add(d))], 0..6),
        prop::collection::vec(prop_oneof![1u64..=u64::MAX, (1u64..1 << 20).prop_map(|d| d << 16)], 0..3),
    )
        .prop_map(|(keep, sets, extra, sessions)| Case { keep, sets, extra, sessions, known: None })
}

fn origin(a: u8, asn: u32) -> MItem {
    MItem::Origin(MOrigin::new(std::net::IpAddr::V4(std::net::Ipv4Addr::new(10, a, 0, 0)), 16, None, asn))
}

/// Directed representatives, one per known-finding key (plus a second retained count).
fn directed() -> Vec<(&'static str, Case)> {
    let sets = |n: usize| -> Vec<MSet> { (0..=n).map(|i| MSet::from_items((0..=i as u8).map(|a| origin(a, 64496)))).collect() };
    vec![
        ("known-half-space-first-change", Case { keep: 10, sets: sets(1), extra: vec![], sessions: vec![], known: Some(KEY_HALF_SPACE.into()) }),
        ("known-half-space-keep1", Case { keep: 1, sets: sets(3), extra: vec![], sessions: vec![], known: Some(KEY_HALF_SPACE.into()) }),
        ("known-serial0", Case { keep: 3, sets: sets(2), extra: vec![], sessions: vec![], known: Some(KEY_SERIAL0.into()) }),
    ]
}

pub fn run(ctx: &Ctx, rep: &mut Report, replay: Option<&serde_json::Value>) {
    rep.rule("histories of 1..=41 (thorough 1..=121) validation results (30 % repeat the previous data set) over a universe of <= 8 origins/router keys (SLURM assertions) and, in half of the histories, ASPAs of two customers pushed through a real ValidationReport publication point, each customer's ASPA absent or one of four provider sets per step so that it is announced / updated / withdrawn repeatedly; history-size in {1,2,3,10}, installed through SharedHistory::update + mark_update_done ; after EVERY step the client serials S+d for all boundary offsets d (0,-1..-(K+2),+1,+2,+3,2^31,2^31+-1..+-(K+1),2^32-1) plus generated random offsets are presented via PayloadSource::diff and GET /json-delta, with own and foreign sessions (own+-2^16 i.e. same RTR low bits, own+1, low 16 bits only, random); non-trivial = some query at distance >= 2 inside the window was answered with a non-empty merged delta; distinct by serialised case");
    rep.assume("serials start at 0 in every session and the history is far shorter than 2^31, so 'issued' = client serial <= current serial; a server serial that has itself wrapped is not reachable through the public API (stated limitation of DESIGN C13)");
    rep.assume("history-size 0 is excluded here (owned by C14)");
    let env = Env::new(ctx.scratch());
    let http = Http::new();
    let kit = crate::fmtx::Kit::new();
    let configs: std::collections::BTreeMap<usize, Config> = [1usize, 2, 3, 10]
        .iter()
        .map(|k| (*k, env.config(&[], &["--history".into(), k.to_string(), "--enable-aspa".into()]).unwrap_or_else(|e| panic!("config: {}", e))))
        .collect();
    let excl = std::cell::RefCell::new(std::collections::BTreeMap::new());
    let prop = |case: &Case, info: &mut CaseInfo| -> Verdict {
        let Some(config) = configs.get(&case.keep) else { return Verdict::Dropped("bad_keep".into()) };
        judge(&World { http: &http, config, kit: &kit }, case, &excl, info)
    };
    if let Some(v) = replay {
        let t: Tagged<Case> = serde_json::from_value(v.clone()).expect("replay");
        run_case(ctx, rep, &t.sub, &t.case, prop);
        return;
    }
    for (name, case) in directed() {
        run_case(ctx, rep, name, &case, prop);
    }
    run_prop(ctx, rep, "history", ctx.tier.pick(1_500, 20_000), case_strategy(ctx.tier.pick(40, 120)), prop);
    for (k, n) in excl.into_inner() {
        *rep.excluded_known.entry(k.to_string()).or_default() += n;
    }
}
