#!/usr/bin/env python3
"""seed_meta.py <dir> <property> <needs> <demo_cmd> <demo_result> <check_cmd> <check_result> <caught:true|false>"""
import json, sys
d, prop, needs, demo_cmd, demo_res, check_cmd, check_res, caught = sys.argv[1:9]
json.dump({"breaks_property": prop, "needs_to_manifest": needs,
  "what_was_run": {"demonstration": demo_cmd, "demonstration_result": demo_res, "existing_tests": "cargo test --offline (31 passed with the defect applied)", "check": check_cmd, "check_result": check_res},
  "caught_by_check": caught == "true", "base_commit": "see patch (applies to /repo HEAD at the time of seeding)"}, open(f"{d}/meta.json", "w"), indent=1)
