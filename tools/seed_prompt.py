#!/usr/bin/env python3
"""Prints the prompt for a seeded-defect sub-agent for property <id> working in <worktree>."""
import json, sys
pid, wt = sys.argv[1], sys.argv[2]
import glob, os
avoid = []
for d in sorted(glob.glob(f"/verif/seeded/{pid}-*/meta.json")):
    avoid.append(json.load(open(d))["needs_to_manifest"])
p = [json.loads(l) for l in open('/verif/properties.jsonl') if json.loads(l)['id'] == pid][0]
print(f"""You are helping to evaluate a verification effort for the open-source RPKI relying-party software NLnetLabs/routinator (Rust). Your task is to SEED ONE REALISTIC DEFECT into a scratch copy of the repository, so that the following behavioural property no longer holds, while the code still compiles and the existing test suite still passes.

PROPERTY {p['id']}: {p['title']}
Statement: {p['statement']}
Quantifier: {p['quantifier']['text']}
Code areas that are meant to make it hold: {', '.join(p['anchors']['files'])}

Your scratch git worktree of the repository is {wt} (work ONLY there; do not touch any other checkout of the repository, and do not look at or use anything under /verif or /work — it is off limits so that your work stays independent). The sandbox has no network; build offline (`cd {wt} && cargo build --offline`, `cargo test --offline`). Builds take 1–3 minutes; be economical. Keep command outputs short (pipe through tail/head).

What to deliver:
1. A change to the routinator sources (src/**, not tests, not Cargo.toml features, nothing under `#[cfg(feature = "verif-hooks")]` and not src/verif.rs) that BREAKS the property above. It must be the kind of mistake a competent maintainer could plausibly make in a refactoring or feature change (an off-by-one, a dropped branch, a reordered pair of statements, a check applied on one path but not another, a cache not invalidated, an escape forgotten, …) — not sabotage that ordinary use would expose at once. Prefer defects that need something specific to manifest: a particular input shape, a multi-step history, a specific interleaving or crash point, an unusual configuration, or two cooperating sites that each look fine alone.
2. It must still compile, and `cargo test --offline` in {wt} must still pass (31 tests).
3. A DEMONSTRATION: a small Rust test or program (e.g. a new file under {wt}/tests/ or a `#[test]` added in a *separate* commit, or a shell script driving the built binary) that FAILS with your change and PASSES without it, and that shows the property violation through observable behaviour (not by inspecting the changed line).
4. Commit the defect as one commit and the demonstration as a separate commit in {wt} (git add/commit there), and write {wt}/SEED_REPORT.md with: which property, the idea of the defect, what is needed for it to manifest, exact commands to run the demonstration with and without the defect (e.g. `git stash`/`git revert` instructions or `git checkout <sha>`), and their observed results.

""" + (("IDEAS ALREADY USED by earlier seeded defects for this property — choose a clearly DIFFERENT mechanism, code site and trigger:\n" + "\n".join("- " + a for a in avoid) + "\n\n") if avoid else "") + """Before you start, read the relevant source files to understand how the property is currently ensured. Finish by replying with a short summary (defect idea, files changed, how to reproduce).""")
