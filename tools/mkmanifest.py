#!/usr/bin/env python3
"""Regenerates /verif/MANIFEST.json from tools/checks.json (one entry per claimed property)."""
import json, os, subprocess
V = "/verif"
import glob
checks = [json.load(open(f)) for f in sorted(glob.glob(f"{V}/tools/checks.d/C*.json"))]
props = [json.loads(l) for l in open(f"{V}/properties.jsonl")]
ids = [p["id"] for p in props]
hook_commits = subprocess.run(["git", "-C", "/repo", "log", "--format=%h %s", "--grep=^verif-hooks"], capture_output=True, text=True).stdout.strip().splitlines()
man = {
    "version": 1,
    "setup_cmd": "cd /verif/harness && CARGO_NET_OFFLINE=true cargo build --release --offline && CARGO_NET_OFFLINE=true cargo build --release --offline --features verif-hooks --bin routinator --manifest-path /repo/Cargo.toml --target-dir /verif/harness/target/repo-bin",
    "hooks": {
        "guard": "cargo feature `verif-hooks` of the routinator crate (off by default)",
        "enable": "the harness crate depends on routinator = { path = \"/repo\", features = [\"arbitrary\", \"verif-hooks\"] }; the hooked CLI binary is built by `cargo build --release --features verif-hooks --bin routinator` into the harness' own target dir",
        "baseline_off_cmd": "cd /repo && cargo test --workspace --no-fail-fast --offline",
        "source_commits": [c.split()[0] for c in hook_commits],
        "add_only": True,
    },
    "engines": [
        {"name": "rvcheck", "path": "harness/", "serves_properties": [c["id"] for c in checks], "kind_free_text": "Rust harness crate (proptest TestRunner driven from main, fixed seeds, shrinking, replay files); one sub-command per property; ./check rebuilds it against /repo's working tree with hooks on"},
    ],
    "checks": [],
    "not_applicable": [],
    "notes": "All checks: ./check <id> <quick|thorough>; replay: ./check <id> --replay <file>. Exit 2 = infrastructure problem, never a verdict. Known findings: known_findings.json.",
}
claimed = set()
for c in checks:
    claimed.add(c["id"])
    man["checks"].append({
        "property_id": c["id"],
        "quick_cmd": f"./check {c['id']} quick",
        "thorough_cmd": f"./check {c['id']} thorough",
        "evidence_file": f"/verif/evidence/{c['id']}.json",
        "replay_cmd_template": f"./check {c['id']} --replay {{path}}",
        "engine": "rvcheck",
        "level_claimed": {"category": c.get("level", "exploration"), "text": c["text"], "design_ref": c.get("design_ref", f"DESIGN.md §1 {c['id']}")},
        "level_note": c["note"],
        "technique": c["technique"],
    })
na = json.load(open(f"{V}/tools/not_applicable.json")) if os.path.exists(f"{V}/tools/not_applicable.json") else {}
for i in ids:
    if i not in claimed:
        man["not_applicable"].append({"property_id": i, "reason": na.get(i, "check not built yet in this revision of /verif (planned, see DESIGN.md §1); not claimed")})
json.dump(man, open(f"{V}/MANIFEST.json", "w"), indent=1)
print("claimed", len(claimed), "not_applicable", len(man["not_applicable"]))
