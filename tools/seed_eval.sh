#!/bin/bash
# tools/seed_eval.sh <Cxx> <suffix> "<demo cargo test args>" <check ids...>
# Verifies a seeded defect in /tmp/seed-<Cxx> (first commit after base = defect, later commits = demonstration),
# stores it under /verif/seeded/<Cxx>-<suffix>/ and runs the given checks against the defect patch.
ID="$1"; SUF="$2"; DEMO="$3"; shift 3
WT=/tmp/seed-$ID; OUT=/verif/seeded/$ID-$SUF
BASE=$(git -C /repo rev-parse --short HEAD)
cd "$WT" || exit 2
BASE=$(git merge-base HEAD $(git -C /repo rev-parse HEAD))
DEF=$(git log --reverse --format=%H $BASE..HEAD | head -1)
mkdir -p "$OUT"
git diff $BASE $DEF > "$OUT/patch.diff"
git diff $DEF HEAD -- . ':!SEED_REPORT.md' > "$OUT/demo.diff"
[ -f SEED_REPORT.md ] && cp SEED_REPORT.md "$OUT/"
echo "--- demo with defect:"; cargo test --offline $DEMO 2>&1 | grep -E "^test result|^test .*(FAILED|ok)$" | head -6
git revert --no-commit $DEF >/dev/null 2>&1
echo "--- demo without defect:"; cargo test --offline $DEMO 2>&1 | grep -E "^test result|^test .*(FAILED|ok)$" | head -6
git revert --abort 2>/dev/null; git reset -q --hard HEAD
echo "--- unit tests with defect:"; cargo test --offline --lib 2>&1 | grep -E "^test result" | head -1
echo "--- checks:"
/verif/tools/mutrun.sh "$OUT/patch.diff" quick "$@" 2>&1 | grep -v Aborting | grep -E "==|key=" | head -8
