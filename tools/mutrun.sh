#!/bin/bash
# tools/mutrun.sh <patch-file|-> <tier> <check id>...
# Runs checks against a scratch copy of /repo with the patch applied ("-" = unmodified HEAD + working tree).
# Nothing in /repo or /verif is modified; evidence/replays go to a scratch VERIF_DIR.
set -u
PATCH="$1"; TIER="$2"; shift 2
WT=$(mktemp -d /tmp/rvmut-wt-XXXXXX)
MH=/tmp/rvmut-harness
VD=$(mktemp -d /tmp/rvmut-verif-XXXXXX)
cleanup() { git -C /repo worktree remove --force "$WT" >/dev/null 2>&1; rm -rf "$WT" "$VD"; }
trap cleanup EXIT
rmdir "$WT"
git -C /repo worktree add --detach "$WT" HEAD >/dev/null 2>&1 || { echo "worktree failed"; exit 2; }
# carry over uncommitted changes of /repo (normally none)
git -C /repo diff HEAD | git -C "$WT" apply --allow-empty 2>/dev/null
if [ "$PATCH" != "-" ]; then
    git -C "$WT" apply "$PATCH" || { echo "patch does not apply"; exit 2; }
fi
mkdir -p "$MH/.cargo"
sed -e "s#path = \"/repo\"#path = \"$WT\"#" -e 's#path = "src/#path = "/verif/harness/src/#' /verif/harness/Cargo.toml > "$MH/Cargo.toml"
cp /verif/harness/Cargo.lock "$MH/Cargo.lock"
printf '[net]\noffline = true\n' > "$MH/.cargo/config.toml"
rm -f "$MH/target/release/rvcheck"
(cd "$MH" && CARGO_NET_OFFLINE=true cargo build --release --offline 2>&1 | grep -E "^(error|warning: unused)" -A8 | head -40)
[ -x "$MH/target/release/rvcheck" ] || { echo "build failed"; exit 2; }
ln -s /verif/assets "$VD/assets"; cp /verif/known_findings.json "$VD/"; ln -s /verif/corpus "$VD/corpus" 2>/dev/null
RC=0
for id in "$@"; do
    VERIF_DIR="$VD" VERIF_REPO_DIR="$WT" RV_REPO_BIN_TARGET="$MH/repo-bin" "$MH/target/release/rvcheck" "$id" "$TIER" 2>&1 | grep -E "VIOLATION|KNOWN-FINDING|key=|evaluations=|panic|error" | head -8
    rc=${PIPESTATUS[0]}
    echo "== $id exit=$rc"
    [ "$rc" != 0 ] && RC=1
done
exit $RC
