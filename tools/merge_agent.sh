#!/bin/bash
# tools/merge_agent.sh <branch>: merge an agent branch, resolving lib.rs (union of pub mod lines) and known_findings.json (union by key).
B="$1"; cd /verif
git merge --no-edit "$B" >/dev/null 2>&1
if git diff --name-only --diff-filter=U | grep -q .; then
  for f in $(git diff --name-only --diff-filter=U); do
    case "$f" in
      harness/src/lib.rs|harness/src/bin/rvcheck.rs|.gitignore)
        sed -i '/^<<<<<<< /d;/^=======$/d;/^>>>>>>> /d' "$f" ;;
      known_findings.json)
        git show HEAD:known_findings.json > /tmp/kf_a.json; git show "$B":known_findings.json > /tmp/kf_b.json
        python3 - <<'PY'
import json
a=json.load(open('/tmp/kf_a.json')); b=json.load(open('/tmp/kf_b.json'))
keys={(x['property'],x['key']) for x in a}
for x in b:
    if (x['property'],x['key']) not in keys: a.append(x)
json.dump(a,open('/verif/known_findings.json','w'),indent=1)
PY
        ;;
      evidence/*) git checkout --theirs "$f" ;;
      *) echo "UNRESOLVED $f" ;;
    esac
  done
fi
git diff --name-only --diff-filter=U
