#!/usr/bin/env python3
"""mkpatch.py <repo-relative-file> <old> <new> [occurrence-index]  -> unified diff on stdout (for git apply)."""
import sys, difflib
path, old, new = sys.argv[1], sys.argv[2], sys.argv[3]
idx = int(sys.argv[4]) if len(sys.argv) > 4 else 0
s = open('/repo/' + path).read()
pos = -1
for _ in range(idx + 1):
    pos = s.index(old, pos + 1)
t = s[:pos] + new + s[pos + len(old):]
sys.stdout.writelines(difflib.unified_diff(s.splitlines(True), t.splitlines(True), 'a/' + path, 'b/' + path))
