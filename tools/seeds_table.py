#!/usr/bin/env python3
"""Rewrites DESIGN.md §8 table from seeded/*/meta.json."""
import json, glob, os, re
rows=[]
for d in sorted(glob.glob('/verif/seeded/*/')):
    name=os.path.basename(d.rstrip('/'))
    m=json.load(open(d+'meta.json'))
    res=m['what_was_run']['check_result']
    missed='MISSED' in res
    rows.append(f"| {name} | {m['needs_to_manifest'].replace('|','/')} | {'**missed at first**, check strengthened: ' if missed else ''}{res.replace('|','/')} |")
table="| seed | what it needs to manifest | result of running the checks (`tools/mutrun.sh seeded/<id>/patch.diff quick …`) |\n|---|---|---|\n"+"\n".join(rows)
s=open('/verif/DESIGN.md').read()
start=s.index('## 8. Independently seeded defects')
end=s.index('## 9. Deviations from the plan above')
n_missed=sum('missed at first' in r for r in rows)
new=f'''## 8. Independently seeded defects

Fresh sub-agents were given only a property's text (statement, quantifier, anchored files) and a scratch worktree of /repo, nothing from
/verif, and asked for a realistic change that breaks the property, compiles and passes the 31 tests, with a demonstration. Each was
re-verified here (demonstration fails with / passes without the change; the 31 tests pass with it) and then run against the checks.
Material per seed: `seeded/<id>/{{patch.diff, demo.diff, SEED_REPORT.md, meta.json}}`. {len(rows)} seeds so far; {n_missed} were missed by
the check of their property when first run — each miss led to a stronger generator or oracle (described in the row), after which the seed
is caught in the quick tier. The table is generated from the meta files (`tools/seeds_table.py`).

{table}

'''
open('/verif/DESIGN.md','w').write(s[:start]+new+s[end:])
print(len(rows), n_missed)
