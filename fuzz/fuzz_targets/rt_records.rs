#![no_main]
// C28: decode -> encode -> decode fix-point for every record type (body lives in rv::c28).
use libfuzzer_sys::fuzz_target;

fuzz_target!(|data: &[u8]| {
    if let Err(e) = rv::c28::fuzz_bytes(data) {
        panic!("{}", e);
    }
});
