#![no_main]
// C26: byte-driven operation sequence against the map model + layout walk (body lives in rv::c26).
use libfuzzer_sys::fuzz_target;

fuzz_target!(|data: &[u8]| {
    if let Err(e) = rv::c26::fuzz_bytes(data) {
        panic!("{}", e);
    }
});
