#![no_main]
// C27: RrdpArchive::{verify, open, load_state, load_object, objects} on an arbitrary archive file.
use libfuzzer_sys::fuzz_target;

fuzz_target!(|data: &[u8]| {
    rv::c27::fuzz_archive(data);
});
