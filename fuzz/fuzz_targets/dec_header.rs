#![no_main]
// C27: the header decoder must not panic, abort, hang or allocate beyond -malloc_limit_mb on any input
// (inputs with a known hazardous shape are skipped by rv's pre-screen).
use libfuzzer_sys::fuzz_target;

fuzz_target!(|data: &[u8]| {
    rv::c27::fuzz_record(rv::bx::Rec::Header, data);
});
